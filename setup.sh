#!/bin/bash
# offline setup: make sure hypothesis is importable by /venv/bin/python
HERE="$(cd "$(dirname "$0")" && pwd)"
if ! PYTHONPATH="$HERE/.deps" /venv/bin/python -c "import hypothesis" 2>/dev/null; then
  /venv/bin/pip install --no-index --find-links /opt/veriftools/wheels --target "$HERE/.deps" hypothesis || exit 1
fi
PYTHONPATH="$HERE/.deps:/repo" /venv/bin/python -c "import hypothesis, numpy, autoray, symmray; print('setup ok: hypothesis', hypothesis.__version__)"

#!/usr/bin/env python3
"""Apply a one-place textual mutation to a scratch copy of /repo/symmray and
run a check against it.
usage: tools/mutant.py <file-in-symmray> <old> <new> -- <check args...>
       tools/mutant.py --patch <diff> -- <check args...>
The scratch copy lives under /tmp and is removed afterwards."""
import os, shutil, subprocess, sys, tempfile

def main():
    argv = sys.argv[1:]
    k = argv.index("--")
    spec, rest = argv[:k], argv[k + 1:]
    tmp = tempfile.mkdtemp(prefix="vfmut_")
    try:
        shutil.copytree("/repo/symmray", os.path.join(tmp, "symmray"),
                        ignore=shutil.ignore_patterns("__pycache__"))
        if spec[0] == "--patch":
            subprocess.check_call(["patch", "-p1", "-s", "-d", tmp, "-i", os.path.abspath(spec[1])])
        else:
            fn, old, new = spec
            p = os.path.join(tmp, "symmray", fn)
            s = open(p).read()
            if s.count(old) < 1:
                print("MUTANT: pattern not found"); return 3
            n = int(os.environ.get("MUT_OCC", "1"))
            parts = s.split(old)
            s = old.join(parts[:n]) + new + old.join(parts[n:])
            open(p, "w").write(s)
        found = os.path.join(tmp, "found")
        env = dict(os.environ, VERIF_REPO=tmp, VF_FOUND_DIR=found)
        here = os.path.dirname(os.path.dirname(os.path.abspath(__file__)))
        r = subprocess.run([os.path.join(here, "check"), *rest, "--no-evidence"], env=env,
                           capture_output=True, text=True)
        out = r.stdout + r.stderr
        lines = out.strip().split("\n")
        keep = [l for l in lines if "VIOLATION" in l or "HARNESS" in l][:4]
        sigs = [l for l in lines if l.startswith("  ")][:3]
        print(f"exit={r.returncode}", *sigs, *keep, sep="\n  ")
        # remove replay files written for the mutant (optionally keep one as
        # a named regression seed: MUT_KEEP=<PID>:<name>[:<sig-substring>])
        import glob, json as _json
        keep = os.environ.get("MUT_KEEP")
        kept = False
        for f in sorted(glob.glob(os.path.join(found, "new-*.json"))):
            if keep and not kept:
                parts = keep.split(":")
                pid, name = parts[0], parts[1]
                want = parts[2] if len(parts) > 2 else ""
                rec = _json.load(open(f))
                if rec["property"] == pid and want in rec["sig"]:
                    rec["note"] = "regression seed: fails on the tree before " + name
                    _json.dump(rec, open(os.path.join(here, "replays", pid, name + ".json"), "w"), indent=1)
                    kept = True
                    print("  kept", rec["sig"], "->", f"replays/{pid}/{name}.json")
            os.remove(f)
        return 0
    finally:
        shutil.rmtree(tmp, ignore_errors=True)

sys.exit(main())

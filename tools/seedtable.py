#!/usr/bin/env python3
"""Print the table of seeded changes and which checks caught them."""
import glob, json, os
HERE = os.path.dirname(os.path.dirname(os.path.abspath(__file__)))
rows = []
for d in sorted(glob.glob(os.path.join(HERE, "seeded", "C*_*"))):
    m = json.load(open(os.path.join(d, "meta.json")))
    v = m.get("verified", {})
    name = os.path.basename(d)
    caught = sorted({k.split("/")[0] for k, r in v.get("checks", {}).items() if r["exit"] == 1})
    missed = sorted({k.split("/")[0] for k, r in v.get("checks", {}).items() if r["exit"] == 0} - set(caught))
    title = (m.get("title") or m.get("what_it_breaks") or "")[:90].replace("|", "/")
    rows.append((name, "yes" if v.get("confirmed") else str(v.get("confirmed")), ",".join(caught) or "-", ",".join(missed) or "", title))
print("| seed | confirmed | caught by | run but quiet | what |")
print("|---|---|---|---|---|")
for r in rows:
    print("| " + " | ".join(r) + " |")
print()
print(f"{len(rows)} seeded changes, {sum(1 for r in rows if r[2] != '-')} caught by at least one check")

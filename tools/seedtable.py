#!/usr/bin/env python3
"""Print the table of seeded changes and which checks caught them
(detections / runs over the VERIF_SEED values tried, quick tier)."""
import collections, glob, json, os
HERE = os.path.dirname(os.path.dirname(os.path.abspath(__file__)))
rows = []
for d in sorted(glob.glob(os.path.join(HERE, "seeded", "C*_*"))):
    m = json.load(open(os.path.join(d, "meta.json")))
    v = m.get("verified", {})
    name = os.path.basename(d)
    hit = collections.Counter(); runs = collections.Counter()
    for k, r in v.get("checks", {}).items():
        c = k.split("/")[0]
        runs[c] += 1
        hit[c] += r["exit"] == 1
    caught = [f"{c} {hit[c]}/{runs[c]}" for c in sorted(runs) if hit[c]]
    quiet = [c for c in sorted(runs) if not hit[c]]
    title = (m.get("title") or m.get("what_it_breaks") or "")[:90].replace("|", "/")
    rows.append((name, "yes" if v.get("confirmed") else str(v.get("confirmed")),
                 ", ".join(caught) or "-", ",".join(quiet), title))
print("| seed | confirmed | caught by (detections/runs) | run but quiet | what |")
print("|---|---|---|---|---|")
for r in rows:
    print("| " + " | ".join(r) + " |")
print()
print(f"{len(rows)} seeded changes, {sum(1 for r in rows if r[2] != '-')} caught by at least one check")

#!/usr/bin/env python3
"""Verify a seeded change produced by a sub-agent and run our checks on it.

usage: tools/seedcheck.py <ID> <A|B|...> [--src DIR] [--checks C02,C06]
                          [--tier quick|thorough] [--keep]

Steps (all in a scratch git worktree of /repo under /tmp, removed afterwards):
  1. demo passes on the clean tree
  2. patch applies; the repository's test suite still reports 1213 passed
  3. demo fails on the patched tree
  4. each named check (default: the property's own) is run against the
     patched tree (VERIF_REPO) and its exit code / VIOLATION lines recorded
Results are written to /verif/seeded/<ID>_<X>/ (patch.diff, demo.py,
meta.json incl. a 'verified' block)."""

import argparse
import glob
import json
import os
import re
import shutil
import subprocess
import sys

HERE = os.path.dirname(os.path.dirname(os.path.abspath(__file__)))


def sh(cmd, **kw):
    return subprocess.run(cmd, shell=True, capture_output=True, text=True, **kw)


def main():
    ap = argparse.ArgumentParser()
    ap.add_argument("pid")
    ap.add_argument("variant")
    ap.add_argument("--src")
    ap.add_argument("--checks")
    ap.add_argument("--tier", default="quick")
    ap.add_argument("--seed", default="1")
    ap.add_argument("--skip-verify", action="store_true")
    args = ap.parse_args()
    pid, var = args.pid.upper(), args.variant
    src = args.src or f"/tmp/seeded_out/{pid}/{var}"
    dst = os.path.join(HERE, "seeded", f"{pid}_{var}")
    if not os.path.exists(os.path.join(src, "patch.diff")):
        src = dst
    patch = os.path.join(src, "patch.diff")
    demo = os.path.join(src, "demo.py")
    meta = json.load(open(os.path.join(src, "meta.json")))
    wt = f"/tmp/sv_{pid}_{var}"
    sh(f"git -C /repo worktree remove --force {wt}")
    r = sh(f"git -C /repo worktree add --detach {wt} HEAD")
    assert r.returncode == 0, r.stderr
    ver = dict(meta.get("verified", {}))
    if os.path.exists(os.path.join(dst, "meta.json")):
        ver = dict(json.load(open(os.path.join(dst, "meta.json"))).get(
            "verified", ver))
    try:
        env = f"PYTHONPATH={wt} PYTHONDONTWRITEBYTECODE=1"
        if not args.skip_verify:
            r = sh(f"cd /tmp && {env} /venv/bin/python {demo}")
            ver["demo_clean_exit"] = r.returncode
        r = sh(f"git -C {wt} apply {patch}")
        if r.returncode != 0:
            print("PATCH DOES NOT APPLY:", r.stderr[:300])
            ver["applies"] = False
            return 1
        ver["applies"] = True
        if not args.skip_verify:
            r = sh(
                f"cd {wt} && {env} /venv/bin/python -m pytest -q "
                "-p no:cacheprovider -n 8 2>&1 | tail -1"
            )
            ver["suite"] = r.stdout.strip()
            r = sh(f"cd /tmp && {env} /venv/bin/python {demo}")
            ver["demo_patched_exit"] = r.returncode
            ver["demo_patched_tail"] = r.stdout.strip().split("\n")[-1][:200]
        checks = (args.checks or pid).split(",")
        res = ver.setdefault("checks", {})
        for c in checks:
            r = sh(
                f"cd {HERE} && VERIF_REPO={wt} VERIF_SEED={args.seed} "
                f"VF_FOUND_DIR={wt}/.vf_found "
                f"./check {c} {args.tier} --no-evidence"
            )
            lines = r.stdout.split("\n")
            sigs = [l.strip()[:160] for l in lines if l.startswith("  ") and
                    not l.startswith("   ")][:4]
            res[f"{c}/{args.tier}/seed{args.seed}"] = {
                "exit": r.returncode,
                "violations": sum("VIOLATION" in l for l in lines),
                "first_signatures": sigs,
            }
        ok = (
            args.skip_verify
            or (ver.get("demo_clean_exit") == 0
                and "1213 passed" in ver.get("suite", "")
                and ver.get("demo_patched_exit") not in (0, None))
        )
        ver["confirmed"] = bool(ok) if not args.skip_verify else ver.get(
            "confirmed")
        meta["verified"] = ver
        os.makedirs(dst, exist_ok=True)
        if os.path.abspath(src) != os.path.abspath(dst):
            shutil.copy(patch, os.path.join(dst, "patch.diff"))
            shutil.copy(demo, os.path.join(dst, "demo.py"))
        with open(os.path.join(dst, "meta.json"), "w") as f:
            json.dump(meta, f, indent=1)
        print(f"{pid}_{var}: confirmed={ver.get('confirmed')} "
              f"suite={ver.get('suite')!r}")
        for k, v in res.items():
            print(f"   {k}: exit={v['exit']} violations={v['violations']} "
                  f"{v['first_signatures'][:2]}")
        return 0
    finally:
        sh(f"git -C /repo worktree remove --force {wt}")
        shutil.rmtree(wt, ignore_errors=True)


sys.exit(main())

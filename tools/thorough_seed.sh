#!/bin/bash
# usage: tools/thorough_seed.sh <seed> <ID>...  -- thorough tier at another seed
cd "$(dirname "$0")/.."
sd=$1; shift
for c in "$@"; do
  out=$(VERIF_SEED=$sd ./check $c thorough --no-evidence 2>&1); rc=$?
  echo "$c rc=$rc $(echo "$out" | grep -E "^$c thorough" | cut -c1-120)"
  echo "$out" | grep -E "VIOLATION|HARNESS-ERROR|^  [a-z]" | head -4 | cut -c1-300
done

#!/usr/bin/env python3
"""Sampled mutation sweep: which small source changes survive the repository's
suite AND every check?

usage: tools/mutsweep.py --n 200 [--seed 1] [--shard i/k] [--procs 8]
                         [--files a.py,b.py] [--out FILE.jsonl] [--mult 1]
                         [--list]

Mutation sites are enumerated from the AST of the anchored source files
(comparison / arithmetic / boolean operator swaps, negation removal, small
constant changes, single-statement deletion); a deterministic sample is
applied one at a time to a scratch worktree of /repo under /tmp.  A mutant
is `suite-killed` when the repository's own tests fail, `detected` when some
check exits 1 (the checks most relevant to the file run first and the sweep
stops at the first alarm), `survived` when all 20 checks stay green (an
equivalent mutant, a change outside every property, or a gap to triage by
hand).  Results are appended to seeded/mutsweep/<out>.jsonl.  The RNG here
only picks which mutants to try; nothing inside a property uses it."""

import argparse
import ast
import json
import os
import random
import shutil
import subprocess
import sys

HERE = os.path.dirname(os.path.dirname(os.path.abspath(__file__)))
ALL = [f"C{i:02d}" for i in range(1, 21)]
FILES = ["abelian_core.py", "fermionic_core.py", "block_core.py", "linalg.py",
         "symmetries.py", "fermionic_local_operators.py", "hamiltonians.py",
         "networks.py", "interface.py"]
FIRST = {
    "symmetries.py": ["C17", "C01", "C16", "C02"],
    "abelian_core.py": ["C01", "C02", "C05", "C06", "C07", "C08", "C16",
                        "C15", "C14", "C20", "C11", "C13"],
    "fermionic_core.py": ["C03", "C09", "C04", "C10", "C01", "C14", "C05",
                          "C06", "C07", "C11", "C16"],
    "block_core.py": ["C08", "C14", "C20", "C12", "C09", "C01"],
    "linalg.py": ["C11", "C12", "C13", "C09", "C20", "C01", "C14", "C15"],
    "fermionic_local_operators.py": ["C18", "C19"],
    "hamiltonians.py": ["C19", "C18"],
    "networks.py": ["C19"],
    "interface.py": ["C08", "C02", "C11"],
}
SKIP_FUNCS = ("check", "__repr__", "__str__", "_repr_", "plot", "draw",
              "print_", "visualize", "show", "__hash__", "to_pytree",
              "from_pytree", "get_rand", "rand_", "random", "_get_rng",
              "to_quimb", "from_quimb", "PEPS", "MPS", "TN_", "PEPO", "MPO",
              # need quimb, which is not installed in this sandbox
              "tfim_local_array", "ham_tfim_from_edges",
              "ham_heisenberg_from_edges",
              # needs pyblock3, not installed either
              "to_pyblock3")
# comparison / operator swaps
CMP = {ast.Lt: "<=", ast.LtE: "<", ast.Gt: ">=", ast.GtE: ">", ast.Eq: "!=",
       ast.NotEq: "==", ast.In: "not in", ast.NotIn: "in", ast.Is: "is not",
       ast.IsNot: "is"}
CMP_SRC = {ast.Lt: "<", ast.LtE: "<=", ast.Gt: ">", ast.GtE: ">=",
           ast.Eq: "==", ast.NotEq: "!=", ast.In: "in", ast.NotIn: "not in",
           ast.Is: "is", ast.IsNot: "is not"}
BIN = {ast.Add: ("+", "-"), ast.Sub: ("-", "+"), ast.Mult: ("*", "+"),
       ast.FloorDiv: ("//", "*"), ast.Mod: ("%", "+"),
       ast.BitXor: ("^", "&"), ast.BitAnd: ("&", "|"), ast.BitOr: ("|", "&")}


def sh(cmd, env=None, timeout=None):
    return subprocess.run(cmd, shell=True, capture_output=True, text=True,
                          env=env, timeout=timeout)


class Src:
    def __init__(self, text):
        self.text = text
        self.lines = text.split("\n")
        self.offs = [0]
        for l in self.lines:
            self.offs.append(self.offs[-1] + len(l.encode()) + 1)
        self.b = text.encode()

    def pos(self, lineno, col):
        return self.offs[lineno - 1] + col

    def span(self, node):
        return (self.pos(node.lineno, node.col_offset),
                self.pos(node.end_lineno, node.end_col_offset))

    def sub(self, a, b, new):
        return (self.b[:a] + new.encode() + self.b[b:]).decode()

    def between(self, left, right, old, new):
        a = self.span(left)[1]
        b = self.span(right)[0]
        seg = self.b[a:b].decode()
        k = seg.find(old)
        if k < 0:
            return None
        # make sure we hit the token itself (e.g. "<" inside "<=")
        return self.sub(a + k, a + k + len(old), new)


def sites(fn, text):
    """yield (lineno, func, kind, description, mutated_text)"""
    src = Src(text)
    tree = ast.parse(text)
    parents = {}
    for node in ast.walk(tree):
        for ch in ast.iter_child_nodes(node):
            parents[ch] = node

    def func_of(node):
        names = []
        while node in parents:
            node = parents[node]
            if isinstance(node, (ast.FunctionDef, ast.ClassDef)):
                names.append(node.name)
        return ".".join(reversed(names))

    def in_docstring_or_skip(node):
        f = func_of(node)
        return any(s in f for s in SKIP_FUNCS) or not f

    for node in ast.walk(tree):
        if not hasattr(node, "lineno") or in_docstring_or_skip(node):
            continue
        f = func_of(node)
        # never mutate inside raise / assert / warnings (diagnostics only)
        p, diag = node, False
        while p in parents:
            p = parents[p]
            if isinstance(p, (ast.Raise, ast.Assert)):
                diag = True
        if diag:
            continue
        if isinstance(node, ast.Compare) and len(node.ops) == 1:
            op = type(node.ops[0])
            if op in CMP:
                new = src.between(node.left, node.comparators[0],
                                  CMP_SRC[op], CMP[op])
                if new:
                    yield (node.lineno, f, "cmp",
                           f"{CMP_SRC[op]} -> {CMP[op]}", new)
        elif isinstance(node, ast.BinOp) and type(node.op) in BIN:
            if isinstance(node.left, ast.Constant) and isinstance(
                    node.left.value, str):
                continue
            old, rep = BIN[type(node.op)]
            new = src.between(node.left, node.right, old, rep)
            if new:
                yield (node.lineno, f, "binop", f"{old} -> {rep}", new)
        elif isinstance(node, ast.BoolOp):
            old, rep = ("and", "or") if isinstance(node.op, ast.And) else (
                "or", "and")
            new = src.between(node.values[0], node.values[1], old, rep)
            if new:
                yield (node.lineno, f, "boolop", f"{old} -> {rep}", new)
        elif isinstance(node, ast.UnaryOp) and isinstance(
                node.op, (ast.Not, ast.USub)):
            a, _ = src.span(node)
            b, _ = src.span(node.operand)
            if isinstance(node.op, ast.USub) and isinstance(
                    node.operand, ast.Constant):
                continue  # handled as a constant
            yield (node.lineno, f, "unary",
                   f"drop {'not' if isinstance(node.op, ast.Not) else '-'}",
                   src.sub(a, b, ""))
        elif isinstance(node, ast.Constant) and not isinstance(
                parents.get(node), ast.Expr):
            v = node.value
            a, b = src.span(node)
            par = parents.get(node)
            if isinstance(par, ast.UnaryOp) and isinstance(par.op, ast.USub):
                continue
            if v is True or v is False:
                yield (node.lineno, f, "const", f"{v} -> {not v}",
                       src.sub(a, b, str(not v)))
            elif isinstance(v, int) and v in (0, 1, 2):
                rep = {0: 1, 1: 0, 2: 1}[v]
                yield (node.lineno, f, "const", f"{v} -> {rep}",
                       src.sub(a, b, str(rep)))
        elif isinstance(node, ast.IfExp):
            a, b = src.span(node.test)
            yield (node.lineno, f, "ifexp", "negate condition",
                   src.sub(a, b, "(not (" + src.b[a:b].decode() + "))"))
        elif isinstance(node, ast.If):
            a, b = src.span(node.test)
            yield (node.lineno, f, "if", "negate condition",
                   src.sub(a, b, "(not (" + src.b[a:b].decode() + "))"))
        elif isinstance(node, (ast.Expr, ast.Assign, ast.AugAssign)) and \
                isinstance(parents.get(node), (ast.FunctionDef, ast.If,
                                               ast.For, ast.With, ast.Try,
                                               ast.While)):
            if isinstance(node, ast.Expr) and isinstance(
                    node.value, ast.Constant):
                continue  # docstring
            if isinstance(node, ast.Assign):
                # deleting a plain first definition only yields NameErrors;
                # keep deletions of re-assignments / attribute or item stores
                t = node.targets[0]
                if isinstance(t, ast.Name):
                    continue
            a, b = src.span(node)
            if src.b[a:b].decode().startswith("warnings.warn"):
                continue  # diagnostics only
            yield (node.lineno, f, "delete",
                   "statement -> pass: " + src.b[a:b].decode()[:70].replace(
                       "\n", " "), src.sub(a, b, "pass"))


def enumerate_sites(files):
    out = []
    for fn in files:
        text = open(f"/repo/symmray/{fn}").read()
        for (ln, f, kind, desc, new) in sites(fn, text):
            try:
                compile(new, fn, "exec")
            except SyntaxError:
                continue
            out.append({"file": fn, "line": ln, "func": f, "kind": kind,
                        "desc": desc, "text": new,
                        "orig": text.split("\n")[ln - 1].strip()[:100]})
    return out


def main():
    ap = argparse.ArgumentParser()
    ap.add_argument("--n", type=int, default=100)
    ap.add_argument("--seed", type=int, default=1)
    ap.add_argument("--shard", default="0/1")
    ap.add_argument("--procs", default="16")
    ap.add_argument("--mult", default="1")
    ap.add_argument("--files", default=",".join(FILES))
    ap.add_argument("--out", default=None)
    ap.add_argument("--list", action="store_true")
    ap.add_argument("--resume", action="store_true",
                    help="skip mutants already recorded in the output file "
                         "(records whose checks ended with a harness error "
                         "are tried again)")
    ap.add_argument("--only", default=None,
                    help="re-run specific mutants: file:line:kind,...")
    args = ap.parse_args()
    files = args.files.split(",")
    allsites = enumerate_sites(files)
    if args.list:
        by = {}
        for s in allsites:
            by[(s["file"], s["kind"])] = by.get((s["file"], s["kind"]), 0) + 1
        for k in sorted(by):
            print(k, by[k])
        print("total", len(allsites))
        return 0
    rng = random.Random(args.seed)
    if args.only:
        want = set(args.only.split(","))
        sample = [s for s in allsites
                  if f"{s['file']}:{s['line']}:{s['kind']}" in want]
    else:
        sample = rng.sample(allsites, min(args.n, len(allsites)))
    out = args.out or os.path.join(HERE, "seeded", "mutsweep",
                                   f"seed{args.seed}.jsonl")
    os.makedirs(os.path.dirname(out), exist_ok=True)
    if args.resume and os.path.exists(out):
        done = set()
        for line in open(out):
            d = json.loads(line)
            bad = any(rc not in (0, 1) for _, rc in d.get("ran", []))
            if not bad and d["outcome"] != "suite-timeout":
                done.add((d["file"], d["line"], d["kind"], d["desc"]))
        sample = [m for m in sample
                  if (m["file"], m["line"], m["kind"], m["desc"]) not in done]
    i, k = map(int, args.shard.split("/"))
    sample = sample[i::k]
    wt = f"/tmp/ms_{args.seed}_{i}"
    sh(f"git -C /repo worktree remove --force {wt}")
    r = sh(f"git -C /repo worktree add --detach {wt} HEAD")
    assert r.returncode == 0, r.stderr
    env = dict(os.environ, PYTHONDONTWRITEBYTECODE="1")
    try:
        for s in sample:
            path = f"{wt}/symmray/{s['file']}"
            orig = open(path).read()
            rec = {k: v for k, v in s.items() if k != "text"}
            try:
                open(path, "w").write(s["text"])
                # (address-space limit: a mutant that loops while growing
                # a list must not exhaust the machine's memory)
                r = sh(f"ulimit -v 8000000; cd {wt} && PYTHONPATH={wt} "
                       "/venv/bin/python -m pytest "
                       "-x -q -p no:cacheprovider -n 6 2>&1 | tail -1", env=env,
                       timeout=1200)
                rec["suite"] = r.stdout.strip()[-80:]
                if " passed" not in rec["suite"] or "failed" in rec["suite"] \
                        or "error" in rec["suite"]:
                    rec["outcome"] = "suite-killed"
                else:
                    order = FIRST.get(s["file"], []) + [
                        c for c in ALL if c not in FIRST.get(s["file"], [])]
                    rec["outcome"] = "survived"
                    rec["ran"] = []
                    for c in order:
                        r = sh(f"ulimit -v 8000000; cd {HERE} && "
                               f"VERIF_REPO={wt} VERIF_SEED=1 "
                               f"VF_BUDGET_MULT={args.mult} "
                               f"VF_FOUND_DIR={wt}/.found ./check {c} quick "
                               f"--no-evidence --procs {args.procs}", env=env)
                        rec["ran"].append([c, r.returncode])
                        if r.returncode == 1:
                            sigs = [l.strip()[:160]
                                    for l in r.stdout.split("\n")
                                    if l.startswith("  ")
                                    and not l.startswith("   ")][:2]
                            rec["outcome"] = "detected"
                            rec["by"] = c
                            rec["signatures"] = sigs
                            break
                    shutil.rmtree(f"{wt}/.found", ignore_errors=True)
                    if rec["outcome"] == "survived" and any(
                            rc not in (0, 1) for _, rc in rec["ran"]):
                        rec["outcome"] = "harness-error"
            except subprocess.TimeoutExpired:
                rec["outcome"] = "suite-timeout"
            finally:
                open(path, "w").write(orig)
            with open(out, "a") as f:
                f.write(json.dumps(rec) + "\n")
            print(f"{rec['file']}:{rec['line']} {rec['func']} [{rec['kind']}] "
                  f"{rec['desc'][:60]} => {rec['outcome']} "
                  f"{rec.get('by', '')}", flush=True)
    finally:
        sh(f"git -C /repo worktree remove --force {wt}")
        shutil.rmtree(wt, ignore_errors=True)
    return 0


sys.exit(main())

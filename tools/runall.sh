#!/bin/bash
# usage: tools/runall.sh [tier] [seed]  -- runs every check, prints one line each
tier=${1:-quick}; seed=${2:-1}
cd "$(dirname "$0")/.."
for i in 01 02 03 04 05 06 07 08 09 10 11 12 13 14 15 16 17 18 19 20; do
  s=$(date +%s.%N)
  out=$(VERIF_SEED=$seed ./check C$i $tier 2>&1); rc=$?
  e=$(date +%s.%N)
  printf "C%s rc=%d %.0fs %s\n" $i $rc $(echo "$e - $s" | bc) "$(echo "$out" | grep -E "^C$i $tier" | cut -c1-110)"
  echo "$out" | grep -E "VIOLATION|HARNESS-ERROR" | head -3 | cut -c1-300
done

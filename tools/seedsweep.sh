#!/bin/bash
# run every seeded change against the check(s) that caught it, at further seeds
cd "$(dirname "$0")/.."
for sd in "$@"; do
for d in seeded/C*_*; do
  n=$(basename $d); pid=${n%_*}; v=${n#*_}
  checks=$(python3 - "$d" <<'PY'
import json, sys
m = json.load(open(sys.argv[1] + "/meta.json"))
c = sorted({k.split("/")[0] for k, r in m.get("verified", {}).get("checks", {}).items() if r["exit"] == 1})
print(",".join(c[:2]))
PY
)
  [ -z "$checks" ] && checks=$pid
  tools/seedcheck.py $pid $v --checks $checks --skip-verify --seed $sd 2>&1 | tail -n +2 | grep "seed$sd"
done
done

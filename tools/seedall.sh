#!/bin/bash
# re-run every seeded change against its property's check (and extra checks)
cd "$(dirname "$0")/.."
declare -A EXTRA=( [C06_B]=C15 [C07_B]=C15 [C02_B]=C15 [C01_A]=C15 [C10_B]=C15 [C05_A]=C15 [C09_B]=C14 [C04_B]=C03 [C18_B]=C19 [C20_A]=C15 [C15_A]=C06 )
for d in seeded/C*_*; do
  n=$(basename $d); pid=${n%_*}; v=${n#*_}
  checks=$pid; [ -n "${EXTRA[$n]}" ] && checks="$pid,${EXTRA[$n]}"
  tools/seedcheck.py $pid $v --checks $checks --skip-verify 2>&1 | tail -n +2
done

#!/bin/bash
# usage: tools/refall.sh [nrunners]  -- second pass: every kept refactor
# (seeded/refactors/<ID>_R<k>) against all 20 checks; prints one line each
cd "$(dirname "$0")/.."
n=${1:-2}
ls -d seeded/refactors/C*_R* | xargs -n1 basename | sort > /tmp/refall.$$.list
for r in $(seq 0 $((n-1))); do
  ( awk -v n=$n -v r=$r 'NR % n == r' /tmp/refall.$$.list | while read d; do
      tools/refcheck.py ${d%_*} ${d#*_} --src seeded/refactors/$d --checks ${REF_CHECKS:-all} 2>&1 | cut -c1-300
    done ) &
done
wait
rm -f /tmp/refall.$$.list

#!/usr/bin/env python3
"""Regenerate MANIFEST.json from the table below (only properties whose check
module exists are claimed; the rest are listed under not_applicable with the
reason).  Run from /verif:  python3 tools/mkmanifest.py"""

import json
import os

HERE = os.path.dirname(os.path.dirname(os.path.abspath(__file__)))

BASELINE_OFF = (
    "cd /repo && env -u SYMMRAY_VERIF /venv/bin/python -m pytest -ra -q "
    "-p no:cacheprovider --timeout=900 --continue-on-collection-errors"
)

TRUST = (
    "Trusted base: numpy, the reference model in vf/model (numpy only, never "
    "imports symmray internals), Hypothesis' generation. Exploration, not "
    "proof: nothing outside the generated / enumerated domain is claimed."
)

CHECKS = {
    "C17": dict(
        technique="exhaustive enumeration of finite domains against an independent group model (itertools + 16 processes)",
        text="Every group axiom is evaluated on the complete finite groups and on the stated U1 boxes; the sector enumerator is compared with a brute-force filter of the full product for every small array structure. Exhaustive inside the stated bounds, which is the strongest statement generated-input search can make for this finite-domain property.",
        ref="4/C17",
    ),
}

NOT_YET = "check not built yet in this revision (see DESIGN.md section 4 for the planned generator and oracle)"


def main():
    props = [json.loads(l) for l in open(os.path.join(HERE, "properties.jsonl"))]
    checks = []
    na = []
    for p in props:
        pid = p["id"]
        have = os.path.exists(os.path.join(HERE, "vf", "props", f"{pid.lower()}.py"))
        if pid in CHECKS and have:
            c = CHECKS[pid]
            checks.append(
                {
                    "property_id": pid,
                    "quick_cmd": f"./check {pid} quick",
                    "thorough_cmd": f"./check {pid} thorough",
                    "evidence_file": f"evidence/{pid}.json",
                    "replay_cmd_template": f"./check {pid} --replay {{path}}",
                    "engine": "vf",
                    "level_claimed": {
                        "category": c.get("category", "exploration"),
                        "text": c["text"],
                        "design_ref": f"DESIGN.md section {c['ref']}",
                    },
                    "level_note": c.get("note", TRUST),
                    "technique": c["technique"],
                }
            )
        else:
            na.append({"property_id": pid, "reason": NOT_YET})
    manifest = {
        "version": 1,
        "setup_cmd": "./setup.sh",
        "hooks": {
            "guard": "SYMMRAY_VERIF",
            "enable": "no hooks are needed: every observation point is a return value, public state of an operand, a module-level global or a traced line; checks run /repo's working tree through PYTHONPATH",
            "baseline_off_cmd": BASELINE_OFF,
            "source_commits": [],
            "add_only": True,
        },
        "engines": [
            {
                "name": "vf",
                "path": "vf/",
                "serves_properties": [c["property_id"] for c in checks],
                "kind_free_text": "property-based testing (Hypothesis 6.168 st.data()-driven laws and interpreted operation histories, sharded over 16 processes), exhaustive enumeration of finite sub-domains, deterministic sys.settrace thread scheduler; oracles: numpy dense contraction, Z2-graded tensor algebra, Jordan-Wigner Fock space, brute-force sector enumeration, round trips and metamorphic relations",
            }
        ],
        "checks": checks,
        "not_applicable": na,
        "notes": "Entry point ./check <ID> <quick|thorough> [--replay F]; VERIF_SEED selects the Hypothesis seed; VERIF_REPO may point the checks at a scratch copy of the repository (used for seeded mutants). known_findings.json lists fixed and open findings; replays/<ID>/*.json are re-run first on every invocation.",
    }
    with open(os.path.join(HERE, "MANIFEST.json"), "w") as f:
        json.dump(manifest, f, indent=1)
        f.write("\n")
    print(f"{len(checks)} checks, {len(na)} not applicable")


if __name__ == "__main__":
    main()

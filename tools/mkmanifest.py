#!/usr/bin/env python3
"""Regenerate MANIFEST.json from the table below (only properties whose check
module exists are claimed; the rest are listed under not_applicable with the
reason).  Run from /verif:  python3 tools/mkmanifest.py"""

import json
import os

HERE = os.path.dirname(os.path.dirname(os.path.abspath(__file__)))

BASELINE_OFF = (
    "cd /repo && env -u SYMMRAY_VERIF /venv/bin/python -m pytest -ra -q "
    "-p no:cacheprovider --timeout=900 --continue-on-collection-errors"
)

TRUST = (
    "Trusted base: numpy, the reference model in vf/model (numpy only, never "
    "imports symmray internals), Hypothesis' generation. Exploration, not "
    "proof: nothing outside the generated / enumerated domain is claimed."
)

CHECKS = {
    "C01": dict(
        technique="model-based operation histories (Hypothesis st.data-driven interpreter over the operation catalogue) with an independent validity audit after every step",
        text="Generated programs of up to 12 (quick) / 30 (thorough) catalogue operations over all symmetries and both array kinds; every returned array is audited by a from-scratch validity predicate (signed sector totals with model arithmetic, block shapes, sorted positive tables, exact fuse bookkeeping, sign-table keys, label parity). Exploration of histories is the natural fit for a closure property quantified over operation sequences.",
        ref="4/C01"),
    "C02": dict(
        technique="differential testing against numpy.tensordot/einsum/trace on an independent densification (Hypothesis, exact integer data)",
        text="Generated operand pairs (all symmetries incl. Z4, mixed directions, independently sparse, real/complex/mixed dtype) contracted in all three modes, axes forms and dispatch routes and compared exactly with the dense contraction placed in the operands' free-leg tables; relisting of axis pairs on the same operands.",
        ref="4/C02"),
    "C03": dict(
        technique="differential testing against an independent elementwise Z2-graded tensor algebra (inversion counting) plus exhaustive enumeration of small Z2 structures",
        text="Fermionic transpose / tensordot (fused, blockwise, auto) / matmul / trace / einsum compared exactly with a graded dense oracle and a label model; products of odd tensors contracted with their conjugates; every Z2 structure with ranks <=3 enumerated completely in the thorough tier.",
        ref="4/C03"),
    "C04": dict(
        technique="metamorphic testing: route independence of generated fermionic networks (Hypothesis)",
        text="Networks of 2-4 tensors (9 topologies, dangling legs, odd tensors with distinct and conjugated labels, pending signs) contracted along a canonical and 1-4 drawn alternative routes (pair order, operand swap, relisting, pre-transposes, split / outer-product+einsum variants, scalar final step); final tensors compared exactly after fermionic re-ordering.",
        ref="4/C04"),
    "C05": dict(
        technique="generated inputs with unique tags checked against the fused index's own sub-index tables, round trips, strategy differential; exhaustive enumeration of small structures",
        text="Every element is located through the result's own extents (elementary-leg coordinates), so any layout that disagrees with the bookkeeping is caught; unfuse round trip exact; insert == concat == auto; cached == uncached; conj sibling; exhaustive over Z2/U1 rank<=3 structures, all ordered groupings and all sector subsets.",
        ref="4/C05"),
    "C06": dict(
        technique="metamorphic testing: contraction vs fuse-then-contract vs contract-then-fuse; strategy differential (Hypothesis, exact)",
        text="Three metamorphic laws over abelian and fermionic pairs with differing stored sectors and pre-fused free legs; results compared as tensors (dense / elementary-leg elements) and, for the strategies, as arrays including fuse bookkeeping and labels.",
        ref="4/C06"),
    "C07": dict(
        technique="round-trip / invariant testing of generated arrays plus exhaustive enumeration of the axis-matching routine with a plan-validity predicate",
        text="Reshape to merge/drop/expand targets and back on sparse arrays with charged size-one axes and pre-fused axes; calc_reshape_args checked for all 47655 shape/target pairs (<=5 axes, sizes {1,2,3,4,6}) in both directions plus expansion targets by simulating the returned plan.",
        ref="4/C07"),
    "C08": dict(
        technique="differential testing against numpy on an independent densification: single operations, three call forms, and generated operation chains with a dense shadow",
        text="Every listed structural / elementwise / arithmetic operation on abelian arrays and block vectors compared with numpy (returns the dense answer or raises; all call forms alike); allclose verdicts (positive and negative) equal the dense comparison; chains of 2-6 operations tracked against a dense shadow after every step so multi-step defects are reachable.",
        ref="4/C08"),
    "C09": dict(
        technique="model-based differential histories: lazy vs synchronised copy of the same tensor through the operation catalogue (Hypothesis)",
        text="The same drawn operation history is applied to a lazily signed array and to its synchronised copy (partners synced); results must be equal after every step (decompositions through reconstruction and spectra), raising must agree, sync laws at the end; after every sign primitive the value equals the operand's value times the documented sign pattern (each requested sign applied exactly once); histories also start from sign tables that name unstored sectors; dedicated law for eigh / solve / qr / svd on generated lazy matrices.",
        ref="4/C09"),
    "C10": dict(
        technique="oracle = squared norm from the harness' densification; metamorphic network routes (Hypothesis, exact integer data)",
        text="<x|x> through conj and dagger in both operand orders for all-ket arrays or with the dual-leg option, for single arrays and products carrying several labels; networks conjugated tensor by tensor along drawn routes; involution and adjoint identities.",
        ref="4/C10"),
    "C11": dict(
        technique="validity predicates on factors plus reconstruction through the library's contraction over generated matrices (direct and fused)",
        text="QR / SVD / eigh / solve on generated matrices with tall, wide, square, 1x1 and exactly rank-deficient blocks, missing blocks, every direction pattern and charge, pending signs: orthonormality, triangularity, stabilised diagonal, bond structure, charges, reconstruction, residual.",
        ref="4/C11"),
    "C12": dict(
        technique="differential testing against numpy.linalg (svd, eigvalsh, norm, solve) on the harness' densification",
        text="Singular values as multisets, eigenvalues per charge, Frobenius norm (also mixed-dtype blocks) and solutions of well-conditioned systems compared with the dense results within a stated tolerance.",
        ref="4/C12"),
    "C13": dict(
        technique="counting predicates computed from the untruncated spectrum with cutoffs derived from that spectrum (Hypothesis); exact-tie law",
        text="For all six cutoff modes the cutoff is placed below / between / beyond the actual values or partial sums; kept counts, ordering, monotonicity, error == discarded weight, absorb equivalence and factor validity are checked; a dedicated law builds exact ties.",
        ref="4/C13"),
    "C14": dict(
        technique="model-based histories with deep snapshots of every pool member and partner (Hypothesis); in-place vs out-of-place differential",
        text="Results join the pool without copying (aliasing allowed), in-place rules act on shallow copies or directly on members; after every rule every other member must equal its byte-level snapshot and in-place results must equal out-of-place ones.",
        ref="4/C14"),
    "C15": dict(
        technique="history differential against a cache bypass over families of near-identical arrays; deterministic sys.settrace thread scheduler with drawn switch points; subprocess environment enumeration",
        text="Families differing in one attribute (incl. other symmetry with identical labels, pre-fused siblings, derived objects sharing memoised indices) run through fuse / reshape / fused contraction / svd under cache controls and compared with the same call inside a cache bypass; context-manager exit paths; 2-4 scheduled threads on shared operands vs sequential results.",
        ref="4/C15"),
    "C16": dict(
        technique="agreement among constructors and with the model's brute-force sector set; dense projection oracle (Hypothesis)",
        text="__init__ (charge inferred; fermionic phases= argument), from_blocks, from_fill_fn, random, from_dense (arbitrary labelings) and utils.from_dense with omitted optional arguments; dense->blocks->dense equals mask + stable reorder; to_dense/from_dense round trip.",
        ref="4/C16"),
    "C17": dict(
        technique="exhaustive enumeration of finite domains against an independent group model (itertools + 16 processes)",
        text="Every group axiom is evaluated on the complete finite groups and on the stated U1 boxes (the library's own validity predicate accepts every member and rejects labels outside the group); the sector enumerator is compared with a brute-force filter of the full product for every small array structure, and across symmetries sharing labels in one process. Exhaustive inside the stated bounds.",
        ref="4/C17"),
    "C18": dict(
        technique="differential testing against Jordan-Wigner matrices on Fock space (Hypothesis)",
        text="Local operator elements vs vacuum expectation values for arbitrary terms and bases; array-level action on basis states of every charge compared with the Fock-space operator up to one common sign gauge (2-colouring), Hermiticity, spectrum, product law; built-in arrays vs documented formulas.",
        ref="4/C18"),
    "C19": dict(
        technique="exhaustive enumeration of all graphs on <=4 sites plus generated graphs; oracle = lattice Hamiltonian on the full Fock space",
        text="Each returned two-site array is lifted to the Fock space of all lattice modes and the sum compared with the Hamiltonian built from its definition (coefficients all different, or a regular lattice with one impurity site / bond); keys, bond names, directions and coordinations of the site description.",
        ref="4/C19"),
    "C20": dict(
        technique="dtype table over the operation catalogue and exact value checks of zero-filling operations at single precision / complex / mixed dtypes (Hypothesis; ComplexWarning as error)",
        text="Every block of every catalogue result must keep the data's dtype (real counterparts for spectra and norms); fuse in both strategies, to_dense, fill_missing_blocks, fused contraction and reshape on sparse data are compared exactly with the dense oracle so discarded imaginary parts or upcasts are caught.",
        ref="4/C20"),
}

NOT_YET = "check not built yet in this revision (see DESIGN.md section 4 for the planned generator and oracle)"


def main():
    props = [json.loads(l) for l in open(os.path.join(HERE, "properties.jsonl"))]
    checks = []
    na = []
    for p in props:
        pid = p["id"]
        have = os.path.exists(os.path.join(HERE, "vf", "props", f"{pid.lower()}.py"))
        if pid in CHECKS and have:
            c = CHECKS[pid]
            checks.append(
                {
                    "property_id": pid,
                    "quick_cmd": f"./check {pid} quick",
                    "thorough_cmd": f"./check {pid} thorough",
                    "evidence_file": f"evidence/{pid}.json",
                    "replay_cmd_template": f"./check {pid} --replay {{path}}",
                    "engine": "vf",
                    "level_claimed": {
                        "category": c.get("category", "exploration"),
                        "text": c["text"],
                        "design_ref": f"DESIGN.md section {c['ref']}",
                    },
                    "level_note": c.get("note", TRUST),
                    "technique": c["technique"],
                }
            )
        else:
            na.append({"property_id": pid, "reason": NOT_YET})
    manifest = {
        "version": 1,
        "setup_cmd": "./setup.sh",
        "hooks": {
            "guard": "SYMMRAY_VERIF",
            "enable": "no hooks are needed: every observation point is a return value, public state of an operand, a module-level global or a traced line; checks run /repo's working tree through PYTHONPATH",
            "baseline_off_cmd": BASELINE_OFF,
            "source_commits": [],
            "add_only": True,
        },
        "engines": [
            {
                "name": "vf",
                "path": "vf/",
                "serves_properties": [c["property_id"] for c in checks],
                "kind_free_text": "property-based testing (Hypothesis 6.168 st.data()-driven laws and interpreted operation histories, sharded over 16 processes), exhaustive enumeration of finite sub-domains, deterministic sys.settrace thread scheduler; oracles: numpy dense contraction, Z2-graded tensor algebra, Jordan-Wigner Fock space, brute-force sector enumeration, round trips and metamorphic relations",
            }
        ],
        "checks": checks,
        "not_applicable": na,
        "notes": "Entry point ./check <ID> <quick|thorough> [--replay F]; VERIF_SEED selects the Hypothesis seed; VERIF_REPO may point the checks at a scratch copy of the repository (used for seeded mutants). known_findings.json lists fixed and open findings; replays/<ID>/*.json are re-run first on every invocation.",
    }
    with open(os.path.join(HERE, "MANIFEST.json"), "w") as f:
        json.dump(manifest, f, indent=1)
        f.write("\n")
    print(f"{len(checks)} checks, {len(na)} not applicable")


if __name__ == "__main__":
    main()

#!/usr/bin/env python3
"""Soundness test: run every check against a behaviour-preserving refactor.

usage: tools/refcheck.py <ID> <R1|R2|..> [--src DIR] [--checks C01,C02|all]
                         [--mult 1]

The patch (a correct refactor written by a sub-agent that saw only the
property text) is applied to a scratch worktree of /repo; the repository's
suite must still pass; then the checks run against it.  ANY alarm is a false
alarm of the machinery.  Results go to /verif/seeded/refactors/<ID>_<R>/."""

import argparse
import json
import os
import shutil
import subprocess
import sys

HERE = os.path.dirname(os.path.dirname(os.path.abspath(__file__)))
ALL = [f"C{i:02d}" for i in range(1, 21)]


def sh(cmd):
    return subprocess.run(cmd, shell=True, capture_output=True, text=True)


def main():
    ap = argparse.ArgumentParser()
    ap.add_argument("pid")
    ap.add_argument("variant")
    ap.add_argument("--src")
    ap.add_argument("--checks", default="all")
    ap.add_argument("--mult", default="1")
    ap.add_argument("--seed", default="1")
    args = ap.parse_args()
    pid, var = args.pid.upper(), args.variant
    src = os.path.abspath(args.src) if args.src else f"/tmp/refactor_out/{pid}/{var}"
    dst = os.path.join(HERE, "seeded", "refactors", f"{pid}_{var}")
    if not os.path.exists(os.path.join(src, "patch.diff")):
        src = dst
    meta = json.load(open(os.path.join(src, "meta.json")))
    wt = f"/tmp/rf_{pid}_{var}"
    sh(f"git -C /repo worktree remove --force {wt}")
    r = sh(f"git -C /repo worktree add --detach {wt} HEAD")
    assert r.returncode == 0, r.stderr
    ver = {}
    try:
        r = sh(f"git -C {wt} apply {src}/patch.diff")
        ver["applies"] = r.returncode == 0
        if not ver["applies"]:
            print(f"{pid}_{var}: PATCH DOES NOT APPLY {r.stderr[:200]}")
        else:
            r = sh(f"ulimit -v 8000000; cd {wt} && PYTHONPATH={wt} /venv/bin/python -m pytest -q "
                   "-p no:cacheprovider -n 8 2>&1 | tail -1")
            ver["suite"] = r.stdout.strip()
            checks = ALL if args.checks == "all" else args.checks.split(",")
            res = ver.setdefault("checks", {})
            for c in checks:
                r = sh(f"cd {HERE} && VERIF_REPO={wt} VERIF_SEED={args.seed} "
                       f"VF_BUDGET_MULT={args.mult} VF_FOUND_DIR={wt}/.found "
                       f"./check {c} quick --no-evidence")
                lines = r.stdout.split("\n")
                sigs = [l.strip()[:200] for l in lines
                        if l.startswith("  ") and not l.startswith("   ")][:3]
                res[c] = {"exit": r.returncode, "signatures": sigs}
                if r.returncode:
                    # keep the failing cases for diagnosis
                    os.makedirs(dst, exist_ok=True)
                    for f in os.listdir(f"{wt}/.found") if os.path.isdir(
                            f"{wt}/.found") else []:
                        shutil.copy(f"{wt}/.found/{f}",
                                    os.path.join(dst, f"alarm-{c}-{f}"))
                shutil.rmtree(f"{wt}/.found", ignore_errors=True)
            alarms = [c for c, v in res.items() if v["exit"] != 0]
            print(f"{pid}_{var}: suite={ver['suite']!r} alarms={alarms}")
            for c in alarms:
                print(f"   {c}: exit={res[c]['exit']} {res[c]['signatures'][:2]}")
        meta["verified"] = ver
        os.makedirs(dst, exist_ok=True)
        if os.path.abspath(src) != os.path.abspath(dst):
            shutil.copy(os.path.join(src, "patch.diff"),
                        os.path.join(dst, "patch.diff"))
        with open(os.path.join(dst, "meta.json"), "w") as f:
            json.dump(meta, f, indent=1)
    finally:
        sh(f"git -C /repo worktree remove --force {wt}")
        shutil.rmtree(wt, ignore_errors=True)


sys.exit(main())

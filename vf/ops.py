"""Operation catalogue: every public operation with (a) when it is applicable
to an array, (b) how to draw its arguments from the array's *structure*, and
(c) how to apply it.  Arguments are drawn once and can then be applied to
several copies of the same tensor (lazy / synced / snapshot copies), which is
what C01, C09, C14 and C20 need.

An op's ``draw`` returns a plain dict ``args``; partner operands are stored
as specs inside ``args`` and built on application (``lazy`` selects whether
their pending signs are left lazy or synchronised)."""

import numpy as np
from hypothesis import strategies as st

from . import gen
from .model import dense as D
from .model import groups as G

OPS = {}


class Op:
    def __init__(self, name, applicable, draw, apply, kind="array",
                 inplace=False, reads_blocks=False, group="struct"):
        self.name = name
        self.applicable = applicable
        self.draw = draw
        self.apply = apply
        self.kind = kind  # array | scalar | vector | tuple | bool | dense
        self.inplace = inplace  # supports inplace=True keyword
        self.reads_blocks = reads_blocks  # must apply pending signs first
        self.group = group


def register(name, **kw):
    def deco(apply):
        OPS[name] = Op(name, apply=apply, **kw)
        return apply

    return deco


def always(x):
    return True


def noargs(ch, x, tag):
    return {}


def is_arr(x):
    import symmray as sr

    return isinstance(x, sr.AbelianArray)


def nd_ge(n):
    return lambda x: is_arr(x) and x.ndim >= n


def ferm(x):
    return is_arr(x) and getattr(x, "fermionic", False)


def idx_specs_of(x):
    return [{"cm": dict(ix.chargemap), "dual": bool(ix.dual)}
            for ix in x.indices]


def symm_of(x):
    return G.symname(x.symmetry)


def is_dyn(x):
    return not type(x).static_symmetry


_label = [1000]


def fresh_label(ch, tag):
    # labels only need to be distinct from every label in the program
    return ch.integer(1000, 9999, f"{tag}.label")


def partner_spec(ch, x, idxs, tag, charge=None, same_dtype=True):
    dt = None
    if same_dtype and x.blocks:
        dt = str(next(iter(x.blocks.values())).dtype)
        if dt not in ("float64", "complex128", "float32", "complex64"):
            dt = "float64"
    return ch.draw(
        gen.array_specs(symm=symm_of(x), ferm=bool(x.fermionic), idxs=idxs,
                        charge=charge, dyn=is_dyn(x), dtype=dt,
                        label=fresh_label(ch, tag) if x.fermionic else None),
        f"{tag}.partner")


_PARTNER_OVERRIDE = None


def build_partner(spec, lazy):
    if _PARTNER_OVERRIDE is not None:
        # a caller that wants to observe the partner (C14) pre-builds it
        return _PARTNER_OVERRIDE
    return gen.build(spec, lazy=lazy)


# ------------------------------------------------------------- structural ---


@register("copy", applicable=always, draw=noargs)
def _copy(x, a, lazy=True):
    return x.copy()


@register("transpose", applicable=nd_ge(1), inplace=True,
          draw=lambda ch, x, t: {"perm": list(ch.perm(x.ndim, t + ".perm"))})
def _transpose(x, a, lazy=True, **kw):
    return x.transpose(tuple(a["perm"]), **kw)


@register("T", applicable=nd_ge(0) , draw=noargs)
def _T(x, a, lazy=True):
    return x.T


def _draw_conj(ch, x, t):
    if x.fermionic:
        return {"phase_permutation": ch.boolean(t + ".pp", p=0.8),
                "phase_dual": ch.boolean(t + ".pd")}
    return {}


# documented defaults: an argument equal to its default is left out of the
# call, so that the defaults themselves are exercised
_DEFAULTS = {"phase_permutation": True, "phase_dual": False,
             "cutoff": -1.0, "cutoff_mode": 4, "max_bond": -1, "absorb": 0,
             "renorm": 0}


def drop_defaults(a):
    return {k: v for k, v in a.items()
            if not (k in _DEFAULTS and type(v) is type(_DEFAULTS[k])
                    and v == _DEFAULTS[k])}


@register("conj", applicable=is_arr, draw=_draw_conj, inplace=True)
def _conj(x, a, lazy=True, **kw):
    return x.conj(**drop_defaults(a), **kw)


@register("dagger", applicable=is_arr, inplace=True,
          draw=lambda ch, x, t: ({"phase_dual": ch.boolean(t + ".pd")}
                                 if x.fermionic else {}))
def _dagger(x, a, lazy=True, **kw):
    return x.dagger(**drop_defaults(a), **kw)


@register("H", applicable=is_arr, draw=noargs)
def _H(x, a, lazy=True):
    return x.H


def _draw_fuse(ch, x, t):
    nd = x.ndim
    perm = ch.perm(nd, t + ".perm")
    ngroups = ch.integer(1, min(3, nd), t + ".ngroups")
    used = ch.integer(min(nd, max(ngroups, 2)), nd, t + ".used")
    axes = list(perm[:used])
    groups, prev = [], 0
    for g in range(ngroups):
        left = used - prev - (ngroups - g - 1)
        k = left if g == ngroups - 1 else ch.integer(1, left, f"{t}.k{g}")
        groups.append(axes[prev:prev + k])
        prev += k
    out = {"groups": groups}
    if not x.fermionic:
        out["mode"] = ch.choice(["auto", "insert", "concat"], t + ".mode")
    return out


@register("fuse", applicable=lambda x: is_arr(x) and x.ndim >= 1 and
          bool(x.blocks), draw=_draw_fuse, inplace=True, reads_blocks=True)
def _fuse(x, a, lazy=True, **kw):
    groups = [tuple(g) for g in a["groups"]]
    if "mode" in a:
        return x.fuse(*groups, mode=a["mode"], **kw)
    return x.fuse(*groups, **kw)


def fused_axes(x):
    return [i for i, ix in enumerate(x.indices) if ix.subinfo is not None]


@register("unfuse", applicable=lambda x: is_arr(x) and bool(fused_axes(x))
          and bool(x.blocks),
          draw=lambda ch, x, t: {"axis": ch.choice(fused_axes(x), t + ".ax")},
          inplace=True, reads_blocks=True)
def _unfuse(x, a, lazy=True, **kw):
    return x.unfuse(a["axis"], **kw)


@register("unfuse_all", applicable=lambda x: is_arr(x) and bool(fused_axes(x))
          and bool(x.blocks), draw=noargs, inplace=True, reads_blocks=True)
def _unfuse_all(x, a, lazy=True, **kw):
    return x.unfuse_all(**kw)


def reshape_target(ch, shape, tag):
    """merge runs of adjacent axes, drop size-one results (>=1 axis stays)"""
    nd = len(shape)
    if nd == 0:
        return None
    cuts = [k for k in range(1, nd) if ch.boolean(f"{tag}.cut{k}", p=0.55)]
    bounds = [0] + cuts + [nd]
    new = []
    for lo, hi in zip(bounds[:-1], bounds[1:]):
        p = 1
        for d in shape[lo:hi]:
            p *= d
        new.append(p)
    kept = [d for k, d in enumerate(new)
            if d != 1 or not ch.boolean(f"{tag}.drop{k}", p=0.5)]
    if not kept:
        kept = [1]
    return kept


def _draw_reshape(ch, x, t):
    tgt = reshape_target(ch, list(x.shape), t)
    form = ch.choice(["tuple", "list", "minus1"], t + ".form")
    if form == "minus1" and tgt and all(d > 0 for d in tgt) and x.size > 0:
        k = ch.integer(0, len(tgt) - 1, t + ".wild")
        tgt = list(tgt)
        tgt[k] = -1
    return {"shape": tgt, "list": form == "list"}


@register("reshape", applicable=lambda x: is_arr(x) and x.ndim >= 1 and
          bool(x.blocks) and x.size > 0, draw=_draw_reshape, inplace=True,
          reads_blocks=True)
def _reshape(x, a, lazy=True, **kw):
    shp = a["shape"]
    return x.reshape(list(shp) if a["list"] else tuple(shp), **kw)


def squeezable(x):
    e = G.identity(symm_of(x))
    return [i for i, ix in enumerate(x.indices)
            if ix.size_total == 1 and list(ix.chargemap) == [e]]


def _draw_squeeze(ch, x, t):
    axs = squeezable(x)
    allones = [i for i, ix in enumerate(x.indices) if ix.size_total == 1]
    if ch.boolean(t + ".all") and axs == allones:
        return {"axis": None}
    k = ch.subset(axs, t + ".axes", min_size=1)
    return {"axis": k[0] if len(k) == 1 and ch.boolean(t + ".int") else k}


@register("squeeze", applicable=lambda x: is_arr(x) and bool(squeezable(x)),
          draw=_draw_squeeze, inplace=True)
def _squeeze(x, a, lazy=True, **kw):
    ax = a["axis"]
    if isinstance(ax, list):
        ax = tuple(ax)
    return x.squeeze(ax, **kw)


def _draw_expand(ch, x, t):
    nd = x.ndim
    out = {"axis": ch.integer(-(nd + 1), nd, t + ".axis")}
    if ch.boolean(t + ".explicit"):
        symm = symm_of(x)
        pool = [c for c in gen.GEN_POOLS[symm]
                if not (x.fermionic and G.parity(symm, c))]
        out["c"] = ch.choice(pool, t + ".c")
        out["dual"] = ch.choice([None, False, True], t + ".dual")
    return out


@register("expand_dims", applicable=lambda x: is_arr(x) and x.ndim <= 5,
          draw=_draw_expand, inplace=True)
def _expand(x, a, lazy=True, **kw):
    return x.expand_dims(a["axis"], **{k: v for k, v in a.items()
                                       if k != "axis"}, **kw)


@register("sync_charges", applicable=is_arr, draw=noargs, inplace=True)
def _sync_charges(x, a, lazy=True, **kw):
    return x.sync_charges(**kw)


# ------------------------------------------------------------- arithmetic ---


@register("neg", applicable=always, draw=noargs, group="arith")
def _neg(x, a, lazy=True):
    return -x


def _draw_scalar(ch, x, t):
    return {"s": ch.choice([2, -3, 0.5, 2.0, -1.0], t + ".s"),
            "how": ch.choice(["mul", "rmul", "div"], t + ".how")}


@register("scalar", applicable=always, draw=_draw_scalar, group="arith")
def _scalar(x, a, lazy=True):
    s = a["s"]
    return x * s if a["how"] == "mul" else (s * x if a["how"] == "rmul"
                                            else x / s)


def _draw_same_legs(ch, x, t):
    return {"y": partner_spec(ch, x, idx_specs_of(x), t, charge=x.charge),
            "swap": ch.boolean(t + ".swap")}


def plain(x):
    return is_arr(x) and not fused_axes(x)


@register("add", applicable=plain, draw=_draw_same_legs, group="arith",
          reads_blocks=True)
def _add(x, a, lazy=True):
    y = build_partner(a["y"], lazy)
    return y + x if a["swap"] else x + y


@register("sub_self", applicable=is_arr, draw=noargs, group="arith",
          reads_blocks=True)
def _sub_self(x, a, lazy=True):
    return x - x.copy()


@register("mul", applicable=plain, draw=_draw_same_legs, group="arith",
          reads_blocks=True)
def _mul(x, a, lazy=True):
    y = build_partner(a["y"], lazy)
    return y * x if a["swap"] else x * y


def _draw_diag(ch, x, t):
    ax = ch.integer(0, x.ndim - 1, t + ".axis")
    cm = dict(x.indices[ax].chargemap)
    keep = ch.subset(sorted(cm), t + ".keys")
    return {"axis": ax, "sizes": {c: cm[c] for c in keep},
            "seed": ch.integer(0, 999, t + ".seed")}


def build_diag(a):
    import symmray as sr

    rng = np.random.default_rng(a["seed"])
    return sr.BlockVector({c: rng.integers(-2, 3, size=d).astype("float64")
                           for c, d in a["sizes"].items()})


@register("multiply_diagonal", applicable=lambda x: is_arr(x) and x.ndim >= 1
          and bool(x.blocks), draw=_draw_diag, inplace=True, group="arith")
def _muldiag(x, a, lazy=True, **kw):
    return x.multiply_diagonal(build_diag(a), a["axis"], **kw)


def _unary_fn(name):
    def f(x, a, lazy=True):
        return getattr(x, name)()
    return f


for _n in ("abs", "isfinite"):
    OPS[_n] = Op(_n, lambda x: is_arr(x) and bool(x.blocks), noargs,
                 _unary_fn(_n), reads_blocks=True, group="elementwise")


@register("sqrt_abs", applicable=lambda x: is_arr(x) and bool(x.blocks),
          draw=noargs, reads_blocks=True, group="elementwise")
def _sqrt_abs(x, a, lazy=True):
    return x.abs().sqrt()


@register("clip", applicable=lambda x: is_arr(x) and bool(x.blocks) and
          "complex" not in x.dtype,
          draw=lambda ch, x, t: {"lo": ch.integer(-3, 0, t + ".lo"),
                                 "hi": ch.integer(1, 4, t + ".hi")},
          reads_blocks=True, group="elementwise")
def _clip(x, a, lazy=True):
    return x.clip(a["lo"], a["hi"])


for _n in ("sum", "norm"):
    OPS[_n] = Op(_n, lambda x: is_arr(x) and bool(x.blocks), noargs,
                 _unary_fn(_n), kind="scalar", reads_blocks=True,
                 group="reduce")
for _n in ("max", "min"):
    OPS[_n] = Op(_n, lambda x: is_arr(x) and bool(x.blocks) and "complex"
                 not in x.dtype, noargs, _unary_fn(_n), kind="scalar",
                 reads_blocks=True, group="reduce")


@register("item", applicable=lambda x: is_arr(x) and len(x.blocks) == 1 and
          all(np.size(b) == 1 for b in x.blocks.values()), draw=noargs,
          kind="scalar", reads_blocks=True, group="reduce")
def _item(x, a, lazy=True):
    v = x.item()
    # the number protocols are documented shorthands of item()
    from .core import Discrepancy

    c = complex(x)
    if c != complex(v):
        raise Discrepancy("item:complex()", f"complex(x)={c!r}, item()={v!r}")
    if not np.iscomplexobj(v):
        f = float(x)
        if f != float(complex(v).real):
            raise Discrepancy("item:float()", f"float(x)={f!r}, item()={v!r}")
    return v


@register("to_dense", applicable=lambda x: is_arr(x) and bool(x.blocks),
          draw=noargs, kind="dense", reads_blocks=True, group="reduce")
def _to_dense(x, a, lazy=True):
    return x.to_dense()


@register("allclose_self", applicable=is_arr, draw=noargs, kind="bool",
          reads_blocks=True, group="reduce")
def _allclose(x, a, lazy=True):
    return bool(x.allclose(x.copy()))


# ------------------------------------------------------------ contraction ---


def _draw_tensordot(ch, x, t):
    nd = x.ndim
    ncon = ch.integer(0, min(nd, 3), t + ".ncon")
    axes_x = list(ch.perm(nd, t + ".axes")[:ncon])
    nfree = ch.integer(0, 2 if nd - ncon <= 3 else 1, t + ".nfree")
    symm = symm_of(x)
    xs = idx_specs_of(x)
    legs = [gen.conj_index_spec(xs[i]) for i in axes_x]
    for k in range(nfree):
        legs.append(ch.draw(gen.index_specs(symm, max_size=2), f"{t}.free{k}"))
    order = list(ch.perm(len(legs), t + ".order"))
    legs = [legs[i] for i in order]
    axes_y = [order.index(k) for k in range(ncon)]
    return {
        "y": partner_spec(ch, x, legs, t),
        "axes_x": axes_x, "axes_y": axes_y,
        "mode": ch.choice(["auto", "fused", "blockwise"], t + ".mode"),
        "swap": ch.boolean(t + ".swap"),
        "preserve": ch.boolean(t + ".preserve", p=0.8),
    }


@register("tensordot", applicable=lambda x: is_arr(x) and x.ndim <= 4 and
          not fused_axes(x), draw=_draw_tensordot, reads_blocks=True,
          group="contract")
def _tensordot(x, a, lazy=True):
    import symmray as sr

    y = build_partner(a["y"], lazy)
    if a["swap"]:
        return sr.tensordot(y, x, (a["axes_y"], a["axes_x"]), mode=a["mode"],
                            preserve_array=a["preserve"])
    return sr.tensordot(x, y, (a["axes_x"], a["axes_y"]), mode=a["mode"],
                        preserve_array=a["preserve"])


def _draw_self_contract(ch, x, t):
    n = x.ndim
    k = ch.integer(1, n, t + ".k")
    order = list(ch.perm(n, t + ".order"))[:k]
    return {"axes": order, "dagger": ch.boolean(t + ".dagger"),
            "mode": ch.choice(["auto", "fused", "blockwise"], t + ".mode")}


@register("contract_with_conj", applicable=lambda x: is_arr(x) and
          1 <= x.ndim <= 3 and not fused_axes(x), draw=_draw_self_contract,
          reads_blocks=True, group="contract")
def _self_contract(x, a, lazy=True):
    import symmray as sr

    ax = a["axes"]
    if a["dagger"]:
        xd = x.dagger()
        n = x.ndim
        return sr.tensordot(x, xd, (ax, [n - 1 - i for i in ax]),
                            mode=a["mode"], preserve_array=True)
    return sr.tensordot(x, x.conj(), (ax, ax), mode=a["mode"],
                        preserve_array=True)


def _draw_matmul(ch, x, t):
    symm = symm_of(x)
    xs = idx_specs_of(x)
    legs = [gen.conj_index_spec(xs[-1])]
    if ch.boolean(t + ".mat"):
        legs.append(ch.draw(gen.index_specs(symm, max_size=2), t + ".free"))
    return {"y": partner_spec(ch, x, legs, t)}


@register("matmul", applicable=lambda x: is_arr(x) and x.ndim in (1, 2) and
          not fused_axes(x), draw=_draw_matmul, reads_blocks=True,
          group="contract")
def _matmul(x, a, lazy=True):
    return x @ build_partner(a["y"], lazy)


def trace_pairs_of(x):
    out = []
    for i in range(x.ndim):
        for j in range(i + 1, x.ndim):
            a, b = x.indices[i], x.indices[j]
            if (dict(a.chargemap) == dict(b.chargemap) and a.dual != b.dual
                    and a.subinfo is None and b.subinfo is None):
                out.append((i, j))
    return out


def _draw_einsum(ch, x, t):
    pairs = trace_pairs_of(x)
    i, j = ch.choice(pairs, t + ".pair")
    letters = "abcdefgh"
    lhs = [None] * x.ndim
    lhs[i] = lhs[j] = "z"
    k = 0
    for ax in range(x.ndim):
        if lhs[ax] is None:
            lhs[ax] = letters[k]
            k += 1
    kept = [q for q in lhs if q != "z"]
    rhs = [kept[p] for p in ch.perm(len(kept), t + ".out")]
    return {"eq": "".join(lhs) + "->" + "".join(rhs),
            "preserve": ch.boolean(t + ".preserve", p=0.8)}


@register("einsum", applicable=lambda x: is_arr(x) and bool(trace_pairs_of(x))
          and x.ndim <= 6, draw=_draw_einsum, reads_blocks=True,
          group="contract")
def _einsum(x, a, lazy=True):
    return x.einsum(a["eq"], preserve_array=a["preserve"])


@register("trace", applicable=lambda x: is_arr(x) and x.ndim == 2 and
          bool(trace_pairs_of(x)), draw=noargs, kind="scalar",
          reads_blocks=True, group="contract")
def _trace(x, a, lazy=True):
    return x.trace()


def _draw_align(ch, x, t):
    d = _draw_tensordot(ch, x, t)
    return {k: d[k] for k in ("y", "axes_x", "axes_y")}


@register("align_axes", applicable=lambda x: is_arr(x) and 1 <= x.ndim <= 4
          and not fused_axes(x), draw=_draw_align, kind="tuple",
          group="contract")
def _align(x, a, lazy=True):
    y = build_partner(a["y"], lazy)
    return x.align_axes(y, (tuple(a["axes_x"]), tuple(a["axes_y"])))


# ------------------------------------------------------------------ linalg --


def is_matrix(x):
    return is_arr(x) and x.ndim == 2 and bool(x.blocks)


@register("qr", applicable=is_matrix, kind="tuple", reads_blocks=True,
          draw=lambda ch, x, t: {"stabilized": ch.boolean(t + ".stab")},
          group="linalg")
def _qr(x, a, lazy=True):
    import symmray as sr

    return sr.linalg.qr(x, stabilized=a["stabilized"])


@register("svd", applicable=is_matrix, kind="tuple", reads_blocks=True,
          draw=noargs, group="linalg")
def _svd(x, a, lazy=True):
    import symmray as sr

    return sr.linalg.svd(x)


def _draw_svdt(ch, x, t):
    return {
        "cutoff": ch.choice([-1.0, 0.0, 1e-12, 0.3, 2.0, 50.0], t + ".cutoff"),
        "cutoff_mode": ch.integer(1, 6, t + ".cmode"),
        "max_bond": ch.choice([-1, 1, 2, 3, 50], t + ".max_bond"),
        "absorb": ch.choice([None, -1, 0, 1, "left", "both", "right"],
                            t + ".absorb"),
    }


@register("svd_truncated", applicable=is_matrix, kind="tuple",
          reads_blocks=True, draw=_draw_svdt, group="linalg")
def _svdt(x, a, lazy=True):
    import symmray as sr

    return sr.linalg.svd_truncated(x, **drop_defaults(a))


def hermitian_able(x):
    if not is_matrix(x):
        return False
    i, j = x.indices
    return (dict(i.chargemap) == dict(j.chargemap) and i.dual != j.dual
            and x.charge == G.identity(symm_of(x)) and i.subinfo is None
            and j.subinfo is None)


@register("eigh", applicable=hermitian_able, kind="tuple", reads_blocks=True,
          draw=noargs, group="linalg")
def _eigh(x, a, lazy=True):
    import symmray as sr

    h = x + x.H
    return sr.linalg.eigh(h)


def solvable(x):
    """square blocks, one block per row charge, not the open finding
    (odd-parity fermionic matrix)"""
    if not is_matrix(x) or fused_axes(x):
        return False
    if x.fermionic and G.parity(symm_of(x), x.charge):
        return False
    rows = [s[0] for s in x.blocks]
    if len(set(rows)) != len(rows) or len(rows) != len(x.indices[0].chargemap):
        return False
    for b in x.blocks.values():
        b = np.asarray(b)
        if b.shape[0] != b.shape[1]:
            return False
        if abs(np.linalg.det(b)) < 1e-6 * (np.abs(b).max() ** b.shape[0] + 1e-300):
            return False
    return True


def _draw_solve(ch, x, t):
    ix0 = idx_specs_of(x)[0]
    c_b = ch.choice(sorted(ix0["cm"]), t + ".bsector")
    qb = G.signed(symm_of(x), c_b, ix0["dual"])
    return {"y": partner_spec(ch, x, [ix0], t, charge=qb)}


@register("solve", applicable=solvable, draw=_draw_solve, reads_blocks=True,
          group="linalg")
def _solve(x, a, lazy=True):
    import symmray as sr

    return sr.linalg.solve(x, build_partner(a["y"], lazy))



# -------------------------------------------------------------- fermionic ---


@register("phase_flip", applicable=lambda x: ferm(x) and x.ndim >= 1,
          inplace=True, group="phase",
          draw=lambda ch, x, t: {"axes": ch.subset(range(x.ndim), t + ".axes",
                                                   min_size=1)})
def _phase_flip(x, a, lazy=True, **kw):
    return x.phase_flip(*a["axes"], **kw)


@register("phase_transpose", applicable=lambda x: ferm(x) and x.ndim >= 1,
          inplace=True, group="phase",
          draw=lambda ch, x, t: {"perm": list(ch.perm(x.ndim, t + ".perm"))})
def _phase_transpose(x, a, lazy=True, **kw):
    return x.phase_transpose(tuple(a["perm"]), **kw)


@register("phase_global", applicable=ferm, draw=noargs, inplace=True,
          group="phase")
def _phase_global(x, a, lazy=True, **kw):
    return x.phase_global(**kw)


@register("phase_sector", applicable=lambda x: ferm(x) and bool(x.blocks),
          inplace=True, group="phase",
          draw=lambda ch, x, t: {"k": ch.integer(0, len(x.blocks) - 1,
                                                 t + ".k")})
def _phase_sector(x, a, lazy=True, **kw):
    sec = sorted(x.blocks)[a["k"] % len(x.blocks)]
    return x.phase_sector(sec, **kw)


@register("phase_sync", applicable=ferm, draw=noargs, inplace=True,
          group="phase")
def _phase_sync(x, a, lazy=True, **kw):
    return x.phase_sync(**kw)


@register("transpose_nophase", applicable=lambda x: ferm(x) and x.ndim >= 1,
          group="phase",
          draw=lambda ch, x, t: {"perm": list(ch.perm(x.ndim, t + ".perm"))})
def _transpose_np(x, a, lazy=True):
    return x.transpose(tuple(a["perm"]), phase=False)


def applicable_ops(x, names=None):
    out = []
    for n, op in OPS.items():
        if names is not None and n not in names:
            continue
        try:
            if op.applicable(x):
                out.append(n)
        except Exception:
            pass
    return out


def draw_op(ch, x, tag, names=None, weights=None):
    cands = applicable_ops(x, names)
    if not cands:
        return None, None
    if weights:
        cands = [n for n in cands for _ in range(weights.get(n, 1))]
    name = ch.choice(cands, tag + ".op")
    op = OPS[name]
    args = op.draw(ch, x, tag)
    shown = {k: v for k, v in args.items() if k != "y"} if isinstance(
        args, dict) else args
    ch.annotate(f"{tag}: {name} {shown}"
                + (" + generated partner" if isinstance(args, dict)
                   and "y" in args else ""))
    return op, args


def arrays_in(result):
    """all symmray arrays / vectors contained in a result"""
    import symmray as sr

    if isinstance(result, (sr.AbelianArray, sr.BlockVector)):
        return [result]
    if isinstance(result, (tuple, list)):
        out = []
        for r in result:
            out.extend(arrays_in(r))
        return out
    return []

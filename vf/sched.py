"""Deterministic thread scheduler.

Threads run only while holding a baton.  sys.settrace is installed per
thread; on every 'line' event inside a frame whose file lies under the
symmray package the global step counter is incremented and, if the step is a
switch point, the baton is handed to the designated other runnable thread.
The interleaving is a pure function of (switch points, choices): it replays
exactly."""

import sys
import threading


class Scheduler:
    def __init__(self, nthreads, switches, prefix, record=False,
                 hot_functions=()):
        self.n = nthreads
        self.switch = dict(switches)  # step -> preferred next thread
        self.prefix = prefix
        self.cv = threading.Condition()
        self.current = None
        self.alive = set(range(nthreads))
        self.step_no = 0
        self.switch_log = []
        self.record = record
        self.hot = set(hot_functions)
        self.hot_steps = []
        self.in_hot_at_switch = 0
        # a baton holder that makes no step for this long is taken to be
        # blocked on a real lock held by a parked thread: a parked thread
        # then takes the baton back (any interleaving is a legitimate one)
        self.block_timeout = 0.25
        self.forced = 0

    def _wait_for_baton(self, tid):
        """park until this thread holds the baton (self.cv held)"""
        seen = self.step_no
        while self.current != tid:
            signalled = self.cv.wait(timeout=self.block_timeout)
            if self.current == tid:
                break
            if not signalled:
                if self.step_no == seen and self.current in self.alive:
                    self.forced += 1
                    self.current = tid
                    self.cv.notify_all()
                    break
                seen = self.step_no

    def _tracer_for(self, tid):
        def local(frame, event, arg):
            if event == "line":
                self.yield_point(tid, frame)
            return local

        def glob(frame, event, arg):
            if event == "call" and frame.f_code.co_filename.startswith(
                    self.prefix):
                return local
            return None

        return glob

    def yield_point(self, tid, frame):
        with self.cv:
            if self.current != tid:
                # woke up from a real lock while another thread holds the
                # baton: park here
                self._wait_for_baton(tid)
            self.step_no += 1
            if self.record and frame.f_code.co_name in self.hot:
                self.hot_steps.append(self.step_no)
            nxt = self.switch.get(self.step_no)
            if nxt is not None and len(self.alive) > 1:
                cands = sorted(self.alive - {tid})
                target = cands[nxt % len(cands)]
                self.switch_log.append((self.step_no, tid, target,
                                        frame.f_code.co_name))
                if frame.f_code.co_name in self.hot:
                    self.in_hot_at_switch += 1
                self.current = target
                self.cv.notify_all()
                self._wait_for_baton(tid)

    def run(self, fns):
        results = [None] * self.n
        errors = [None] * self.n

        def worker(tid):
            with self.cv:
                while self.current != tid:
                    self.cv.wait()
            sys.settrace(self._tracer_for(tid))
            try:
                results[tid] = fns[tid]()
            except BaseException as e:  # noqa
                errors[tid] = e
            finally:
                sys.settrace(None)
                with self.cv:
                    self.alive.discard(tid)
                    if self.alive:
                        self.current = min(self.alive)
                    self.cv.notify_all()

        ths = [threading.Thread(target=worker, args=(i,), daemon=True)
               for i in range(self.n)]
        for t in ths:
            t.start()
        with self.cv:
            self.current = 0
            self.cv.notify_all()
        for t in ths:
            t.join(timeout=120)
        hung = [t for t in ths if t.is_alive()]
        return results, errors, self.step_no, hung

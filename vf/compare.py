"""Comparison helpers: dense equality with stated tolerances, strict
structural equality of symmray arrays, snapshots."""

import numpy as np

from .core import Discrepancy
from .model import dense as D
from .model import groups as G


def eps_of(*arrays):
    e = 0.0
    for a in arrays:
        dt = np.asarray(a).dtype
        if dt.kind in "fc":
            e = max(e, float(np.finfo(dt).eps))
    return e or float(np.finfo("float64").eps)


def dense_equal(got, want, sig, exact=True, scale=None, K=1, what="",
                eps=None):
    got = np.asarray(got)
    want = np.asarray(want)
    if got.shape != want.shape:
        raise Discrepancy(
            sig + ":shape", f"{what} shape {got.shape} != {want.shape}"
        )
    if got.size == 0:
        return
    if exact:
        ok = np.array_equal(got, want)
    else:
        if scale is None:
            scale = max(1.0, float(np.max(np.abs(want))) if want.size else 1.0)
        tol = 64 * max(eps or 0.0, eps_of(got, want)) * max(K, 1) * scale
        ok = bool(np.all(np.abs(got - want) <= tol))
    if not ok:
        diff = np.abs(got - want)
        pos = np.unravel_index(int(np.argmax(diff)), diff.shape)
        raise Discrepancy(
            sig,
            f"{what} differs from the oracle at {pos}: got {got[pos]!r}, "
            f"want {want[pos]!r} (max |diff| {diff.max():.3g})",
        )


def scalar_equal(got, want, sig, exact=True, scale=1.0, K=1, what="",
                 eps=None):
    g = complex(got)
    w = complex(want)
    if exact:
        ok = g == w
    else:
        ok = abs(g - w) <= 64 * (eps or np.finfo("float64").eps) * max(
            K, 1) * max(scale, 1.0)
    if not ok:
        raise Discrepancy(sig, f"{what} scalar {got!r} != oracle {want!r}")


def index_struct(ix):
    """Nested, comparable description of an index incl. fuse bookkeeping."""
    sub = None
    if ix.subinfo is not None:
        sub = (
            tuple(index_struct(s) for s in ix.subinfo.indices),
            tuple(
                (c, tuple(ext.items()))
                for c, ext in sorted(ix.subinfo.extents.items())
            ),
        )
    return (tuple(ix.chargemap.items()), bool(ix.dual), sub)


def sector_values(x):
    """sector -> block with pending signs applied (copy)."""
    ph = D.phases_of(x)
    return {
        s: (np.asarray(b)
            if ph.get(s, 1) == 1 or np.asarray(b).dtype == np.bool_
            else -np.asarray(b))  # (a sign on boolean data means nothing)
        for s, b in x.blocks.items()
    }


def same_array(a, b, sig, exact=True, what="", labels=True, check_class=True,
               zero_is_missing=True, scale=None, K=1):
    """Strict equality: class, symmetry, charge, per-axis direction / charge
    table / fuse bookkeeping, labels, and the same value for every sector
    after signs are applied (an all-zero block equals a missing one unless
    zero_is_missing=False)."""
    if check_class and type(a) is not type(b):
        raise Discrepancy(sig + ":class", f"{what} {type(a)} vs {type(b)}")
    if G.symname(a.symmetry) != G.symname(b.symmetry):
        raise Discrepancy(sig + ":symmetry", what)
    if a.charge != b.charge:
        raise Discrepancy(
            sig + ":charge", f"{what} charge {a.charge!r} vs {b.charge!r}"
        )
    if a.ndim != b.ndim:
        raise Discrepancy(sig + ":rank", f"{what} rank {a.ndim} vs {b.ndim}")
    for ax, (i, j) in enumerate(zip(a.indices, b.indices)):
        if index_struct(i) != index_struct(j):
            raise Discrepancy(
                sig + ":index",
                f"{what} axis {ax}: {index_struct(i)} vs {index_struct(j)}",
            )
    if labels and getattr(a, "fermionic", False):
        if tuple(map(repr, a.oddpos)) != tuple(map(repr, b.oddpos)):
            raise Discrepancy(
                sig + ":labels", f"{what} labels {a.oddpos} vs {b.oddpos}"
            )
    va, vb = sector_values(a), sector_values(b)
    for s in set(va) | set(vb):
        x = va.get(s)
        y = vb.get(s)
        if x is None or y is None:
            if not zero_is_missing:
                raise Discrepancy(
                    sig + ":sectors", f"{what} sector {s} stored on one side"
                )
            z = x if y is None else y
            if np.any(z != 0):
                raise Discrepancy(
                    sig + ":value",
                    f"{what} sector {s} non-zero on one side only",
                )
            continue
        if x.shape != y.shape:
            raise Discrepancy(
                sig + ":block-shape", f"{what} sector {s}: {x.shape} {y.shape}"
            )
        if x.dtype != y.dtype and exact:
            raise Discrepancy(
                sig + ":dtype", f"{what} sector {s}: {x.dtype} vs {y.dtype}"
            )
        dense_equal(x, y, sig + ":value", exact=exact, what=f"{what} sector {s}",
                    scale=scale, K=K)


def snapshot(x):
    """Deep, comparable snapshot of the observable state of an array or
    block vector (block order, bytes, dtype, tables, charge, signs, labels)."""
    import symmray as sr

    if isinstance(x, sr.BlockVector):
        return (
            "vec",
            tuple(
                (k, np.asarray(v).dtype.str, np.asarray(v).shape,
                 np.asarray(v).tobytes())
                for k, v in x.blocks.items()
            ),
        )
    blocks = tuple(
        (s, np.asarray(b).dtype.str, np.asarray(b).shape,
         np.ascontiguousarray(b).tobytes())
        for s, b in x.blocks.items()
    )
    out = (
        type(x).__name__,
        G.symname(x.symmetry),
        x.charge,
        tuple(index_struct(ix) for ix in x.indices),
        blocks,
    )
    if getattr(x, "fermionic", False):
        out += (tuple(x.phases.items()), tuple(map(repr, x.oddpos)))
    return out


def snapshot_diff(s1, s2):
    names = ["class", "symmetry", "charge", "indices", "blocks", "phases",
             "labels"]
    if s1[0] == "vec" or s2[0] == "vec":
        return "vector blocks" if s1 != s2 else ""
    for n, a, b in zip(names, s1, s2):
        if a != b:
            return n
    return ""

"""Independent validity audit of arrays / vectors (never calls x.check())."""

import numpy as np

from ..core import Discrepancy
from . import groups as G


def audit_index(symm, ix, path="ix"):
    errs = []
    cm = ix.chargemap
    keys = list(cm)
    if keys != sorted(keys):
        errs.append(("index-unsorted", f"{path}: chargemap not sorted {keys}"))
    for c, d in cm.items():
        if not G.valid(symm, c):
            errs.append(("index-charge-invalid", f"{path}: charge {c!r}"))
        if not (isinstance(d, int) and not isinstance(d, bool) and d > 0):
            errs.append(("index-size", f"{path}: size {d!r} for charge {c!r}"))
    if not isinstance(ix.dual, bool):
        errs.append(("index-dual-type", f"{path}: dual {ix.dual!r}"))
    si = ix.subinfo
    if si is not None:
        if set(si.extents) != set(cm):
            errs.append(
                (
                    "fused-extents-keys",
                    f"{path}: extents keys {sorted(si.extents)} != charges "
                    f"{sorted(cm)}",
                )
            )
        for c, ext in si.extents.items():
            if c in cm and sum(ext.values()) != cm[c]:
                errs.append(
                    (
                        "fused-extents-sum",
                        f"{path}: extents of {c!r} sum to "
                        f"{sum(ext.values())} != {cm[c]}",
                    )
                )
            for sub, d in ext.items():
                if len(sub) != len(si.indices):
                    errs.append(("fused-subsector-arity", f"{path}: {sub}"))
                    continue
                try:
                    prod = 1
                    for six, sc in zip(si.indices, sub):
                        prod *= six.chargemap[sc]
                except KeyError:
                    errs.append(
                        (
                            "fused-subcharge-unknown",
                            f"{path}: subsector {sub} names a charge its "
                            "sub-index lacks",
                        )
                    )
                    continue
                if prod != d:
                    errs.append(
                        (
                            "fused-subsector-size",
                            f"{path}: subsector {sub} size {d} != {prod}",
                        )
                    )
                fc = G.combine(
                    symm,
                    *[
                        G.signed(symm, sc, six.dual != ix.dual)
                        for six, sc in zip(si.indices, sub)
                    ],
                )
                if fc != c:
                    errs.append(
                        (
                            "fused-charge",
                            f"{path}: subsector {sub} combines to {fc!r}, "
                            f"listed under {c!r}",
                        )
                    )
        for k, six in enumerate(si.indices):
            errs += audit_index(symm, six, f"{path}.sub{k}")
    return errs


def audit(x):
    """Return a list of (signature, message); empty if x is valid."""
    import symmray as sr

    errs = []
    if isinstance(x, sr.BlockVector):
        for k, v in x.blocks.items():
            if np.ndim(v) != 1:
                errs.append(("vector-block-ndim", f"block {k!r}: {np.ndim(v)}"))
        return errs
    symm = G.symname(x.symmetry)
    if not G.valid(symm, x.charge):
        errs.append(("charge-invalid", f"total charge {x.charge!r} ({symm})"))
        return errs
    duals = []
    for k, ix in enumerate(x.indices):
        errs += audit_index(symm, ix, f"axis{k}")
        duals.append(ix.dual)
    for sec, blk in x.blocks.items():
        if not isinstance(sec, tuple) or len(sec) != x.ndim:
            errs.append(("sector-arity", f"sector {sec!r} for rank {x.ndim}"))
            continue
        try:
            shp = tuple(ix.chargemap[c] for c, ix in zip(sec, x.indices))
        except (KeyError, TypeError):
            errs.append(
                ("sector-charge-unknown", f"sector {sec} not in index tables")
            )
            continue
        tot = G.total(symm, sec, duals)
        if tot != x.charge:
            errs.append(
                (
                    "sector-not-conserving",
                    f"sector {sec} combines to {tot!r} != charge {x.charge!r}",
                )
            )
        if tuple(np.shape(blk)) != shp:
            errs.append(
                (
                    "block-shape",
                    f"sector {sec}: block {np.shape(blk)} vs tables {shp}",
                )
            )
    if getattr(x, "fermionic", False):
        for sec, ph in x.phases.items():
            if not (ph == 1 or ph == -1):
                errs.append(("phase-value", f"sector {sec}: {ph!r}"))
            if not isinstance(sec, tuple) or len(sec) != x.ndim:
                errs.append(("phase-arity", f"phase key {sec!r}"))
                continue
            try:
                tot = G.total(symm, sec, duals)
            except Exception:
                errs.append(("phase-key-invalid", f"{sec!r}"))
                continue
            if tot != x.charge:
                errs.append(
                    ("phase-not-conserving", f"phase key {sec} -> {tot!r}")
                )
        if len(x.oddpos) % 2 != G.parity(symm, x.charge):
            errs.append(
                (
                    "labels-parity",
                    f"{len(x.oddpos)} labels {x.oddpos} but charge "
                    f"{x.charge!r}",
                )
            )
    return errs


def introspection(x):
    """the library's own descriptive accessors must agree with the audited
    raw state (they are how users read a result's structure)"""
    import math

    import symmray as sr

    errs = []
    if isinstance(x, sr.BlockVector):
        return errs

    def bad(name, got, want):
        errs.append((f"accessor-{name}", f"{name} = {got!r}, raw state says "
                                         f"{want!r}"))

    cms = [dict(ix.chargemap) for ix in x.indices]
    shape = tuple(sum(cm.values()) for cm in cms)
    if tuple(x.shape) != shape:
        bad("shape", x.shape, shape)
    if x.ndim != len(cms):
        bad("ndim", x.ndim, len(cms))
    if x.size != math.prod(shape):
        bad("size", x.size, math.prod(shape))
    if x.num_blocks != len(x.blocks):
        bad("num_blocks", x.num_blocks, len(x.blocks))
    if tuple(x.duals) != tuple(ix.dual for ix in x.indices):
        bad("duals", x.duals, tuple(ix.dual for ix in x.indices))
    if tuple(x.sectors) != tuple(x.blocks):
        bad("sectors", x.sectors, tuple(x.blocks))
    for k, (ix, cm) in enumerate(zip(x.indices, cms)):
        if ix.size_total != sum(cm.values()):
            bad(f"axis{k}.size_total", ix.size_total, sum(cm.values()))
        if ix.num_charges != len(cm):
            bad(f"axis{k}.num_charges", ix.num_charges, len(cm))
        for c, d in cm.items():
            if ix.size_of(c) != d:
                bad(f"axis{k}.size_of", ix.size_of(c), d)
    for sec, blk in x.blocks.items():
        gs = tuple(x.get_block_shape(sec))
        if gs != tuple(np.shape(blk)):
            bad("get_block_shape", gs, tuple(np.shape(blk)))
    return errs


def require_valid(x, sig_prefix="invalid", what=""):
    errs = audit(x)
    if not errs:
        errs = introspection(x)
    if errs:
        s, m = errs[0]
        raise Discrepancy(f"{sig_prefix}:{s}", f"{what}: {m}")

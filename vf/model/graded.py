"""Elementwise Z2-graded dense tensor algebra (numpy only).

A graded tensor is a dense array plus, per axis, the parity (0/1) of every
position and the direction of the leg (dual=True is bra-like).  Signs are
computed from first principles by counting inversions among odd positions —
not with the library's 'moved set' procedure."""

import numpy as np

from . import dense as D
from . import groups as G


class GT:
    """graded tensor: data, per-axis parity vectors, per-axis duals"""

    def __init__(self, data, pars, duals):
        self.data = np.asarray(data)
        self.pars = [np.asarray(p, dtype=int) for p in pars]
        self.duals = list(duals)
        assert self.data.ndim == len(self.pars) == len(self.duals)
        for ax, p in enumerate(self.pars):
            assert len(p) == self.data.shape[ax]

    @property
    def ndim(self):
        return self.data.ndim


def from_array(x, ref=None):
    """graded tensor of a symmray fermionic array (pending signs applied)"""
    symm = D.symm_of(x)
    cms = [dict(ix.chargemap) for ix in x.indices] if ref is None else ref
    return GT(
        D.dense_of(x, ref=ref),
        [D.position_parities(symm, cm) for cm in cms],
        [ix.dual for ix in x.indices],
    )


def _bcast(vec, ax, ndim):
    shape = [1] * ndim
    shape[ax] = len(vec)
    return np.asarray(vec).reshape(shape)


def perm_sign_array(pars, perm):
    """array over all positions: sign of `perm` restricted to odd positions,
    as (-1)^(number of inverted pairs of odd positions)"""
    nd = len(pars)
    where = {a: k for k, a in enumerate(perm)}
    S = np.ones([len(p) for p in pars], dtype=int) if nd else np.ones((), int)
    for a in range(nd):
        for b in range(a + 1, nd):
            if where[a] > where[b]:
                S = S * (1 - 2 * (_bcast(pars[a], a, nd) * _bcast(pars[b], b, nd)))
    return S


def transpose(t, perm):
    perm = list(perm)
    S = perm_sign_array(t.pars, perm)
    return GT(
        np.transpose(t.data * S, perm),
        [t.pars[p] for p in perm],
        [t.duals[p] for p in perm],
    )


def tensordot(a, b, axes_a, axes_b):
    """graded contraction: bring the operands adjacent
    (a -> free..., contracted;  b -> contracted, free...), evaluate the pairs
    nested (last of a meets first of b ... ), one extra sign per odd
    contracted position that meets as ket-then-bra."""
    axes_a, axes_b = list(axes_a), list(axes_b)
    n = len(axes_a)
    fa = [i for i in range(a.ndim) if i not in axes_a]
    fb = [i for i in range(b.ndim) if i not in axes_b]
    a2 = transpose(a, fa + axes_a)
    b2 = transpose(b, axes_b + fb)
    nf = len(fa)
    # sign over the contracted multi-index
    kshape = a2.data.shape[nf:]
    if n:
        m = np.zeros(kshape, dtype=int)
        ketbra = np.zeros(kshape, dtype=int)
        for j in range(n):
            pj = _bcast(a2.pars[nf + j], j, n)
            m = m + pj
            if not a2.duals[nf + j]:
                ketbra = ketbra + pj
        # b is laid out (k1..kn) but the nested evaluation needs (kn..k1):
        # reversing m odd positions costs m(m-1)/2 transpositions
        S = np.where(((m * (m - 1)) // 2 + ketbra) % 2 == 1, -1, 1)
        data = np.tensordot(a2.data * S, b2.data, axes=n)
    else:
        data = np.tensordot(a2.data, b2.data, axes=0)
    return GT(
        data,
        a2.pars[:nf] + b2.pars[n:],
        a2.duals[:nf] + b2.duals[n:],
    )


def trace_pairs(t, pairs, out_order):
    """trace the listed (i, j) axis pairs (i before j in the data layout),
    keep the remaining axes in `out_order`."""
    pairs = [tuple(p) for p in pairs]
    perm = list(out_order)
    for i, j in pairs:
        perm += [i, j]
    t2 = transpose(t, perm)
    data = t2.data
    nk = len(out_order)
    # trace from the last pair backwards
    for q in reversed(range(len(pairs))):
        ax = nk + 2 * q
        p = t2.pars[ax]
        if not np.array_equal(p, t2.pars[ax + 1]):
            raise ValueError("traced legs have different parity tables")
        sgn = np.where((p == 1) & (not t2.duals[ax]), -1, 1)
        d = np.diagonal(data, axis1=ax, axis2=ax + 1)  # diag axis goes last
        data = (d * sgn).sum(axis=-1)
    return GT(data, t2.pars[:nk], t2.duals[:nk])


# --------------------------------------------------------------- labels ----


def label_lt(a, b):
    """documented order of odd-position labels (label, dual): dual
    (conjugated) labels come first, reflected; then plain labels ascending"""
    (la, da), (lb, db) = a, b
    if da and db:
        return la > lb
    if da != db:
        return da
    return la < lb


def combine_labels(par_left, left, right):
    """Model of the labels of a product: labels are dummy odd legs on the left
    of each tensor.  Returns (sign, labels).  Conjugate pairs that become
    adjacent annihilate ( |x><x| ordering costs a sign )."""
    sign = -1 if (par_left and len(right) % 2) else 1
    seq = list(left) + list(right)
    # insertion sort counting transpositions, annihilating conjugate pairs
    changed = True
    while changed:
        changed = False
        # sort by counting inversions (stable)
        n = len(seq)
        inv = 0
        for i in range(n):
            for j in range(i + 1, n):
                if label_lt(seq[j], seq[i]):
                    inv += 1
        if inv % 2:
            sign = -sign
        import functools

        seq = sorted(
            seq,
            key=functools.cmp_to_key(
                lambda x, y: -1 if label_lt(x, y) else (1 if label_lt(y, x) else 0)
            ),
        )
        for i in range(len(seq) - 1):
            a, b = seq[i], seq[i + 1]
            if a[0] == b[0] and a[1] != b[1]:
                if b[1]:
                    sign = -sign
                del seq[i : i + 2]
                changed = True
                break
    return sign, tuple(seq)


def labels_of(x):
    return tuple((op.label, bool(op.dual)) for op in x.oddpos)

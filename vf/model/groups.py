"""Independent, table-driven model of the built-in abelian groups.
Never imports symmray."""

import itertools

SYMS = ("Z2", "Z4", "U1", "Z2Z2", "U1U1")
STATIC_SYMS = ("Z2", "U1", "Z2Z2", "U1U1")


def identity(s):
    return (0, 0) if s in ("Z2Z2", "U1U1") else 0


def combine(s, *cs):
    if s == "Z2":
        return sum(cs) % 2
    if s == "Z4":
        return sum(cs) % 4
    if s == "U1":
        return sum(cs)
    if s == "Z2Z2":
        return (sum(c[0] for c in cs) % 2, sum(c[1] for c in cs) % 2)
    if s == "U1U1":
        return (sum(c[0] for c in cs), sum(c[1] for c in cs))
    raise ValueError(s)


def neg(s, c):
    if s == "Z2":
        return c
    if s == "Z4":
        return (-c) % 4
    if s == "U1":
        return -c
    if s == "Z2Z2":
        return c
    if s == "U1U1":
        return (-c[0], -c[1])
    raise ValueError(s)


def signed(s, c, dual):
    return neg(s, c) if dual else c


def parity(s, c):
    if s in ("Z2", "Z4", "U1"):
        return c % 2
    return (c[0] + c[1]) % 2


def _isint(q):
    return isinstance(q, int) and not isinstance(q, bool)


def valid(s, c):
    if s == "Z2":
        return _isint(c) and c in (0, 1)
    if s == "Z4":
        return _isint(c) and c in (0, 1, 2, 3)
    if s == "U1":
        return _isint(c)
    if s == "Z2Z2":
        return (
            isinstance(c, tuple)
            and len(c) == 2
            and all(_isint(q) and q in (0, 1) for q in c)
        )
    if s == "U1U1":
        return isinstance(c, tuple) and len(c) == 2 and all(map(_isint, c))
    raise ValueError(s)


def total(s, sector, duals):
    return combine(s, *(signed(s, c, d) for c, d in zip(sector, duals)))


def valid_sectors(s, chargelists, duals, charge):
    """Brute force: every tuple of the product whose signed total is charge."""
    return [
        sec
        for sec in itertools.product(*chargelists)
        if total(s, sec, duals) == charge
    ]


# default pools of charges used by the generators
POOLS = {
    "Z2": [0, 1],
    "Z4": [0, 1, 2, 3],
    "U1": [-3, -2, -1, 0, 1, 2, 3],
    "Z2Z2": [(0, 0), (0, 1), (1, 0), (1, 1)],
    "U1U1": [(a, b) for a in (-1, 0, 1, 2) for b in (-1, 0, 1, 2)],
}


def symname(sym):
    """Name of a symmray symmetry object (only its class name is used)."""
    return type(sym).__name__

"""Jordan-Wigner matrices for an ordered list of fermionic modes (numpy)."""

import functools

import numpy as np


class Fock:
    def __init__(self, modes):
        self.modes = list(modes)
        self.n = len(self.modes)
        Z = np.diag([1.0, -1.0])
        I2 = np.eye(2)
        a = np.array([[0.0, 1.0], [0.0, 0.0]])  # annihilation: |1> -> |0>
        self.ann = {}
        for k, m in enumerate(self.modes):
            mats = [Z] * k + [a] + [I2] * (self.n - k - 1)
            self.ann[m] = functools.reduce(np.kron, mats)
        self.dim = 2 ** self.n
        self.vac = np.zeros(self.dim)
        self.vac[0] = 1.0

    def op(self, label, dag):
        A = self.ann[label]
        return A.T.copy() if dag else A

    def string(self, ops):
        """ops: sequence of (label, dag) -> matrix product in written order"""
        M = np.eye(self.dim)
        for (l, d) in ops:
            M = M @ self.op(l, d)
        return M

    def number(self, label):
        return self.op(label, True) @ self.op(label, False)

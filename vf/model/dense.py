"""Own densifier and structural helpers.  Reads only public attributes of
symmray arrays (indices[].chargemap / dual / subinfo, blocks, charge, phases,
oddpos); never calls to_dense / check / allclose of the library."""

import itertools

import numpy as np

from ..core import Discrepancy
from . import groups as G


def offsets(chargemap):
    """charge -> (start, size) with charges in sorted order."""
    out = {}
    pos = 0
    for c in sorted(chargemap):
        d = chargemap[c]
        out[c] = (pos, d)
        pos += d
    return out, pos


def phases_of(x):
    return dict(x.phases) if getattr(x, "fermionic", False) else {}


def dense_of(x, ref=None, apply_phases=True):
    """Dense numpy array of a symmray array.

    ref : optional list of chargemaps (dict charge->size), one per axis: the
    reference tables whose offsets are used (so that results whose tables lost
    charges embed into the operands' index space).  A stored sector naming a
    charge absent from the reference, or with a different size, is a
    discrepancy.
    """
    cms = [dict(ix.chargemap) for ix in x.indices] if ref is None else ref
    if len(cms) != x.ndim:
        raise Discrepancy("dense:rank", f"rank {x.ndim} vs reference {len(cms)}")
    offs = []
    shape = []
    for cm in cms:
        o, n = offsets(cm)
        offs.append(o)
        shape.append(n)
    blocks = x.blocks
    dt = np.result_type(*[np.asarray(b).dtype for b in blocks.values()]) \
        if blocks else np.dtype("float64")
    if dt == np.bool_:
        dt = np.dtype("bool")
    out = np.zeros(tuple(shape), dtype=dt)
    ph = phases_of(x) if apply_phases else {}
    for sector, blk in blocks.items():
        blk = np.asarray(blk)
        sl = []
        for ax, c in enumerate(sector):
            if c not in offs[ax]:
                raise Discrepancy(
                    "dense:charge-not-in-reference",
                    f"sector {sector} axis {ax}: charge {c!r} not in "
                    f"reference table {cms[ax]}",
                )
            st, d = offs[ax][c]
            sl.append(slice(st, st + d))
        want = tuple(s.stop - s.start for s in sl)
        if blk.shape != want:
            raise Discrepancy(
                "dense:block-shape",
                f"sector {sector}: block shape {blk.shape}, tables say {want}",
            )
        sgn = ph.get(sector, 1)
        out[tuple(sl)] = blk if (sgn == 1 or blk.dtype == np.bool_) else -blk
    return out


def position_parities(symm, chargemap):
    """parity (0/1) of every dense position of an index (sorted charges)."""
    p = []
    for c in sorted(chargemap):
        p += [G.parity(symm, c)] * chargemap[c]
    return np.array(p, dtype=int)


def position_charges(chargemap):
    out = []
    for c in sorted(chargemap):
        out += [c] * chargemap[c]
    return out


def symm_of(x):
    return G.symname(x.symmetry)


def conserving_mask(symm, cms, duals, charge):
    """Boolean dense mask of the positions whose signed charges combine to
    ``charge``."""
    shape = tuple(sum(cm.values()) for cm in cms)
    mask = np.zeros(shape, dtype=bool)
    offs = [offsets(cm)[0] for cm in cms]
    for sec in itertools.product(*[sorted(cm) for cm in cms]):
        if G.total(symm, sec, duals) == charge:
            sl = tuple(
                slice(offs[ax][c][0], offs[ax][c][0] + offs[ax][c][1])
                for ax, c in enumerate(sec)
            )
            mask[sl] = True
    return mask


# --------------------------------------------------------------- fused legs --


def leaf_indices(ix):
    """Elementary (unfused) indices below an index, in order."""
    if ix.subinfo is None:
        return [ix]
    out = []
    for s in ix.subinfo.indices:
        out.extend(leaf_indices(s))
    return out


def decode_positions(ix):
    """For an index (possibly fused, nested): list, per charge, of the
    elementary coordinates of each position.

    Returns dict charge -> list (len = size of that charge) of tuples
    ((leafcharge, leafpos), ...) one entry per elementary leg, where leafpos
    is the position inside the leaf's charge block.
    """
    if ix.subinfo is None:
        return {
            c: [((c, k),) for k in range(d)] for c, d in ix.chargemap.items()
        }
    subs = ix.subinfo.indices
    subdec = [decode_positions(s) for s in subs]
    out = {}
    for c, extent in ix.subinfo.extents.items():
        lst = []
        for subsector, d in extent.items():
            parts = [subdec[i][sc] for i, sc in enumerate(subsector)]
            n = 1
            for p in parts:
                n *= len(p)
            if n != d:
                raise Discrepancy(
                    "fused:extent-size",
                    f"charge {c!r} subsector {subsector}: extent {d} but "
                    f"sub-blocks give {n}",
                )
            for combo in itertools.product(*parts):  # row-major
                flat = ()
                for q in combo:
                    flat += q
                lst.append(flat)
        out[c] = lst
    return out


def elements(x, apply_phases=True, tol=0.0, per_axis=False):
    """Every non-zero stored element keyed by its coordinate on elementary
    legs: dict ((leafcharge, leafpos), ...) -> value.  With per_axis=True the
    key is a tuple with one tuple of leaf coordinates per axis of x."""
    decs = [decode_positions(ix) for ix in x.indices]
    ph = phases_of(x) if apply_phases else {}
    out = {}
    for sector, blk in x.blocks.items():
        blk = np.asarray(blk)
        sgn = ph.get(sector, 1)
        lists = []
        for ax, c in enumerate(sector):
            lst = decs[ax].get(c)
            if lst is None or len(lst) != blk.shape[ax]:
                raise Discrepancy(
                    "fused:block-vs-table",
                    f"sector {sector} axis {ax}: block dim {blk.shape} vs "
                    f"decoded {None if lst is None else len(lst)}",
                )
            lists.append(lst)
        for pos in np.argwhere(np.abs(blk) > tol):
            if per_axis:
                key = tuple(lists[ax][p] for ax, p in enumerate(pos))
            else:
                key = ()
                for ax, p in enumerate(pos):
                    key += lists[ax][p]
            v = blk[tuple(pos)] * sgn
            if key in out:
                raise Discrepancy(
                    "fused:duplicate-coordinate", f"coordinate {key} twice"
                )
            out[key] = v
    return out

"""Hypothesis strategies producing JSON-able *specs*, and builders turning a
spec into a symmray object through the most primitive public constructor.
Valid sectors come from the model's brute-force enumerator, never from the
library's own enumerator."""

import numpy as np
from hypothesis import strategies as st

from .model import groups as G

SYMS4 = ("Z2", "U1", "Z2Z2", "U1U1")

# smaller default pools keep alignment between independently drawn legs likely
GEN_POOLS = {
    "Z2": [0, 1],
    "Z4": [0, 1, 2, 3],
    "U1": [-2, -1, 0, 1, 2],
    "Z2Z2": [(0, 0), (0, 1), (1, 0), (1, 1)],
    "U1U1": [(a, b) for a in (-1, 0, 1) for b in (-1, 0, 1)],
}


BIG_POOLS = {
    "Z2": [0, 1],
    "Z4": [0, 1, 2, 3],
    "U1": [-4, -3, -2, -1, 0, 1, 2, 3, 5],
    "Z2Z2": [(0, 0), (0, 1), (1, 0), (1, 1)],
    "U1U1": [(a, b) for a in (-2, -1, 0, 1, 3) for b in (-2, 0, 1, 2)],
}


@st.composite
def index_specs(draw, symm, max_charges=3, max_size=3, min_charges=1,
                dual=None, big=False):
    pool = BIG_POOLS[symm] if big else GEN_POOLS[symm]
    hi = min(max_charges, len(pool))
    k = draw(st.integers(min(min_charges, hi), hi))
    charges = draw(
        st.lists(st.sampled_from(pool), min_size=k, max_size=k, unique=True)
    )
    cm = {c: draw(st.integers(1, max_size)) for c in sorted(charges)}
    return {
        "cm": cm,
        "dual": draw(st.booleans()) if dual is None else dual,
    }


def conj_index_spec(ix):
    return {"cm": dict(ix["cm"]), "dual": not ix["dual"]}


def spec_valid_sectors(symm, idxs, charge):
    return G.valid_sectors(
        symm,
        [sorted(ix["cm"]) for ix in idxs],
        [ix["dual"] for ix in idxs],
        charge,
    )


@st.composite
def charge_for(draw, symm, idxs, allow_empty=True):
    """Total charge = signed total of a drawn sector (so >=1 valid sector);
    rarely an arbitrary pool charge (may leave no valid sector)."""
    if any(not ix["cm"] for ix in idxs):
        # an index that lost all its charges: no sector exists
        return G.identity(symm)
    if allow_empty and idxs and draw(st.integers(0, 19)) == 0:
        return draw(st.sampled_from(GEN_POOLS[symm]))
    sec = [draw(st.sampled_from(sorted(ix["cm"]))) for ix in idxs]
    return G.total(symm, sec, [ix["dual"] for ix in idxs])


@st.composite
def sector_subset(draw, secs, min_keep=1, mode=None):
    if not secs:
        return []
    if mode is None:
        mode = draw(
            st.sampled_from(["full", "sparse", "sparse", "sparse", "single"])
        )
    if mode == "full" or len(secs) == 1:
        return list(secs)
    if mode == "single":
        return [secs[draw(st.integers(0, len(secs) - 1))]]
    mask = draw(
        st.lists(st.booleans(), min_size=len(secs), max_size=len(secs))
    )
    keep = [s for s, m in zip(secs, mask) if m]
    if len(keep) < min_keep:
        keep = [secs[draw(st.integers(0, len(secs) - 1))]]
    return keep


PHASE_STEPS = ("flip", "ptrans", "global", "sector")


@st.composite
def phase_recipe(draw, ndim, nsec, max_steps=3, p_none=0.35):
    """Recipe of lazy-sign producing steps that keep the leg order."""
    if ndim == 0 or nsec == 0:
        return []
    if draw(st.integers(0, 99)) < int(100 * p_none):
        return []
    steps = []
    for _ in range(draw(st.integers(1, max_steps))):
        kind = draw(st.sampled_from(PHASE_STEPS))
        if kind == "flip":
            axs = draw(
                st.lists(st.integers(0, ndim - 1), min_size=1, max_size=ndim,
                         unique=True)
            )
            steps.append(["flip", axs])
        elif kind == "ptrans":
            steps.append(["ptrans", draw(st.permutations(list(range(ndim))))])
        elif kind == "global":
            steps.append(["global"])
        else:
            steps.append(["sector", draw(st.integers(0, nsec - 1))])
    return steps


@st.composite
def array_specs(
    draw,
    symm=None,
    ferm=None,
    min_ndim=0,
    max_ndim=4,
    idxs=None,
    charge=None,
    syms=SYMS4,
    max_charges=3,
    max_size=3,
    dtype=None,
    data=None,
    dyn=None,
    sparsity=None,
    label=None,
    phases=None,
    allow_empty=True,
    parity=None,
):
    """A complete array spec.  ``idxs`` (list of index specs) may be given
    (partner legs) — then only the remaining attributes are drawn."""
    if symm is None:
        symm = draw(st.sampled_from(list(syms)))
    if ferm is None:
        ferm = draw(st.booleans())
    if ferm and symm == "Z4":
        ferm = False
    if idxs is None:
        nd = draw(st.integers(min_ndim, max_ndim))
        if draw(st.integers(0, 15)) == 0:
            # occasionally a larger structure: more charges (also of larger
            # magnitude, see BIG_POOLS) and bigger blocks
            max_charges = max(max_charges, 4)
            max_size = max(max_size, 5)
            idxs = [
                draw(index_specs(symm, max_charges=max_charges,
                                 max_size=max_size, min_charges=2, big=True))
                for _ in range(nd)
            ]
    if idxs is None:
        idxs = [
            draw(
                index_specs(
                    symm,
                    max_charges=max_charges,
                    max_size=max_size,
                    min_charges=min(
                        max_charges, 2 if draw(st.integers(0, 9)) < 6 else 1
                    ),
                )
            )
            for _ in range(nd)
        ]
    if charge is None:
        charge = draw(charge_for(symm, idxs, allow_empty=allow_empty))
        if parity is not None and G.parity(symm, charge) != parity:
            # try to reach the wanted parity with another sector
            for _ in range(3):
                c2 = draw(charge_for(symm, idxs, allow_empty=False))
                if G.parity(symm, c2) == parity:
                    charge = c2
                    break
    secs = spec_valid_sectors(symm, idxs, charge)
    stored = draw(sector_subset(secs, mode=sparsity))
    if dtype is None:
        dtype = draw(st.sampled_from(["float64", "float64", "complex128"]))
    elif dtype == "any":
        dtype = draw(st.sampled_from(
            ["float64", "float64", "complex128", "mixed"]))
    if data is None:
        data = "int"
    if dyn is None:
        dyn = symm == "Z4" or draw(st.integers(0, 3)) == 0
    if len(stored) > 1 and draw(st.booleans()):
        # stored blocks in an arbitrary (not sorted) order: the data of a
        # sector does not depend on its position, only the dict order does
        stored = [stored[i] for i in draw(st.permutations(range(len(stored))))] \
            if len(stored) <= 6 else stored[::-1]
    spec = {
        "symm": symm,
        "ferm": bool(ferm),
        "dyn": bool(dyn),
        "idxs": idxs,
        "charge": charge,
        "sectors": stored,
        "nvalid": len(secs),
        "seed": draw(st.integers(0, 2**20)),
        "dtype": dtype,
        "data": data,
    }
    if ferm:
        spec["oddpos"] = (
            draw(st.integers(1, 60)) if label is None else label
        )
        if phases is None:
            spec["phases"] = draw(phase_recipe(len(idxs), len(stored)))
        else:
            spec["phases"] = phases
    return spec


# ------------------------------------------------------------------ build ---


def array_class(symm, ferm, dyn):
    import symmray as sr

    if dyn or symm == "Z4":
        return sr.FermionicArray if ferm else sr.AbelianArray
    return {
        ("Z2", False): sr.Z2Array,
        ("U1", False): sr.U1Array,
        ("Z2Z2", False): sr.Z2Z2Array,
        ("U1U1", False): sr.U1U1Array,
        ("Z2", True): sr.Z2FermionicArray,
        ("U1", True): sr.U1FermionicArray,
        ("Z2Z2", True): sr.Z2Z2FermionicArray,
        ("U1U1", True): sr.U1U1FermionicArray,
    }[symm, bool(ferm)]


def build_index(ix):
    import symmray as sr

    return sr.BlockIndex(dict(ix["cm"]), dual=ix["dual"])


def make_blocks(spec):
    rng = np.random.default_rng(spec["seed"])
    dtype = spec["dtype"]
    kind = spec.get("data", "int")
    blocks = {}
    tag = 1
    mixed = dtype == "mixed"
    # block data is a function of the sector's rank in SORTED order, so that
    # re-ordering the stored sectors changes only the dict order
    for nblk, sec in enumerate(sorted(map(tuple, spec["sectors"]))):
        shape = tuple(ix["cm"][c] for c, ix in zip(sec, spec["idxs"]))
        if mixed:
            # blocks of differing dtype, as produced by real + complex
            # addition: the first block real, later ones drawn
            dtype = ("float64", "float32")[int(rng.integers(0, 2))] \
                if nblk == 0 else ("float64", "complex128", "float32",
                                   "complex128", "complex64")[
                    int(rng.integers(0, 5))]
        if kind == "int":
            b = rng.integers(-4, 5, size=shape).astype("float64")
            if "complex" in dtype:
                b = b + 1j * rng.integers(-4, 5, size=shape)
        elif kind == "tags":
            n = int(np.prod(shape)) if shape else 1
            b = np.arange(tag, tag + n, dtype="float64").reshape(shape)
            tag += n
            if "complex" in dtype:
                b = b + 1j * b[..., ::-1] if b.ndim else b * (1 + 1j)
        elif kind in ("gauss", "wide"):
            b = rng.normal(size=shape)
            if "complex" in dtype:
                b = b + 1j * rng.normal(size=shape)
            if kind == "wide":
                # blocks of very different magnitude (dynamic range ~1e8)
                b = b * 10.0 ** int(rng.integers(-9, 4))
        elif kind == "pos":
            b = rng.integers(1, 6, size=shape).astype("float64")
        elif kind == "lowrank":
            # exactly rank-deficient matrix blocks: integer outer products
            m, n = shape
            r = max(1, min(m, n) - 1)
            if max(m, n) >= 9:
                r = min(r, 2)
            b = np.zeros(shape)
            for _ in range(r):
                b = b + np.outer(rng.integers(-3, 4, size=m),
                                 rng.integers(-3, 4, size=n))
            if "complex" in dtype:
                b = b * (1 + 0j) + 1j * np.outer(
                    rng.integers(-2, 3, size=m), rng.integers(-2, 3, size=n)
                ) * (1 if r > 1 else 0)
        elif kind in ("herm", "wellcond"):
            m, n = shape
            g = rng.normal(size=shape)
            if "complex" in dtype:
                g = g + 1j * rng.normal(size=shape)
            if m == n and kind == "herm":
                g = g + g.conj().T
            if m == n and kind == "wellcond":
                g = g / max(1.0, np.linalg.norm(g, 2)) + 2.0 * np.eye(m)
            b = g
        else:
            raise ValueError(kind)
        blocks[tuple(sec)] = np.asarray(b).astype(dtype)
    # stored order as listed in the spec
    return {tuple(sec): blocks[tuple(sec)] for sec in spec["sectors"]}


def apply_phase_recipe(x, recipe, stored):
    for step in recipe or []:
        kind = step[0]
        if kind == "flip":
            x = x.phase_flip(*step[1])
        elif kind == "ptrans":
            x = x.phase_transpose(tuple(step[1]))
        elif kind == "global":
            x = x.phase_global()
        elif kind == "sector":
            if stored:
                x = x.phase_sector(tuple(stored[step[1] % len(stored)]))
    return x


def build(spec, lazy=True):
    """spec -> symmray array (pending signs applied lazily unless lazy=False,
    in which case the recipe is applied and then synchronised)."""
    cls = array_class(spec["symm"], spec["ferm"], spec["dyn"])
    kw = {}
    if spec["dyn"] or spec["symm"] == "Z4":
        kw["symmetry"] = spec["symm"]
    if spec["ferm"]:
        kw["oddpos"] = spec.get("oddpos")
    x = cls(
        indices=tuple(build_index(ix) for ix in spec["idxs"]),
        charge=spec["charge"],
        blocks=make_blocks(spec),
        **kw,
    )
    if spec["ferm"] and spec.get("phases"):
        x = apply_phase_recipe(x, spec["phases"], spec["sectors"])
        if not lazy:
            x = x.phase_sync()
    return x


def spec_summary(spec):
    """labels describing the class of a spec (for evidence histograms)."""
    duals = [ix["dual"] for ix in spec["idxs"]]
    out = [
        f"symm={spec['symm']}",
        f"ndim={len(spec['idxs'])}",
        "ferm" if spec["ferm"] else "abel",
    ]
    if len(spec["sectors"]) < spec["nvalid"]:
        out.append("sparse")
    if any(duals) and not all(duals):
        out.append("mixed-dual")
    if spec["ferm"] and G.parity(spec["symm"], spec["charge"]):
        out.append("odd")
    if spec.get("phases"):
        out.append("pending-signs")
    if "complex" in spec["dtype"]:
        out.append("complex")
    if spec["dtype"] == "mixed":
        out.append("mixed-dtype")
    if spec["dyn"]:
        out.append("dynamic-class")
    return out


def is_sparse(spec):
    return len(spec["sectors"]) < spec["nvalid"]


def mixed_dual(spec):
    d = [ix["dual"] for ix in spec["idxs"]]
    return any(d) and not all(d)


# -------------------------------------------------- contraction partners ----


@st.composite
def contraction_pairs(
    draw,
    ferm=None,
    max_ndim=4,
    min_con=0,
    syms=SYMS4,
    keep_full=0.6,
    two_charge_bias=True,
    dtype=None,
    same_dtype=True,
    max_size=3,
    ncon_choices=None,
    max_charges=3,
):
    """Specs (a, b) with matching contracted legs and the axes lists.

    Contracted legs of ``b`` are the conjugates of those of ``a``, placed at
    drawn positions among fresh free legs; the axes are listed in a drawn
    order."""
    symm = draw(st.sampled_from(list(syms)))
    if ferm is None:
        ferm = draw(st.booleans())
    if symm == "Z4":
        ferm = False
    ncon = draw(st.sampled_from([0, 1, 1, 1, 1, 2, 2, 2, 3, 3, 4]))
    if ncon_choices is not None:
        ncon = draw(st.sampled_from(list(ncon_choices)))
    ncon = max(min_con, min(ncon, max_ndim))
    nda = draw(st.integers(ncon, max_ndim))
    ndb = draw(st.integers(ncon, max_ndim))
    minc = 2 if (two_charge_bias and draw(st.integers(0, 9)) < 7) else 1
    ia = []
    axes_a = draw(st.permutations(list(range(nda))))[:ncon]
    for ax in range(nda):
        mc = minc if ax in axes_a else 1
        ia.append(draw(index_specs(symm, min_charges=min(mc, max_charges),
                                   max_size=max_size,
                                   max_charges=max_charges)))
    axes_b = draw(st.permutations(list(range(ndb))))[:ncon]
    ib = [None] * ndb
    for xa, xb in zip(axes_a, axes_b):
        ib[xb] = conj_index_spec(ia[xa])
    for ax in range(ndb):
        if ib[ax] is None:
            ib[ax] = draw(index_specs(symm, max_size=max_size,
                                      max_charges=max_charges))
    dyn = symm == "Z4" or draw(st.integers(0, 4)) == 0
    if dtype is None:
        dtype = draw(st.sampled_from(["float64", "float64", "complex128"]))
    sparsity = None
    if draw(st.integers(0, 99)) < int(100 * keep_full):
        sparsity = draw(st.sampled_from(["full", "sparse"]))
    la, lb = draw(
        st.lists(st.integers(1, 60), min_size=2, max_size=2, unique=True)
    )
    a = draw(array_specs(symm=symm, ferm=ferm, idxs=ia, dyn=dyn, dtype=dtype,
                         sparsity=sparsity, label=la))
    dtb = dtype if same_dtype else None
    b = draw(array_specs(symm=symm, ferm=ferm, idxs=ib, dyn=dyn, dtype=dtb,
                         sparsity=sparsity, label=lb))
    return {"a": a, "b": b, "axes_a": list(axes_a), "axes_b": list(axes_b)}


def aligned_pairs(pair):
    """Number of (a-block, b-block) pairs whose contracted charges coincide,
    and the largest number accumulating into one output sector."""
    a, b = pair["a"], pair["b"]
    axa, axb = pair["axes_a"], pair["axes_b"]
    fa = [i for i in range(len(a["idxs"])) if i not in axa]
    fb = [i for i in range(len(b["idxs"])) if i not in axb]
    acc = {}
    n = 0
    for sa in a["sectors"]:
        ka = tuple(sa[i] for i in axa)
        for sb in b["sectors"]:
            if ka == tuple(sb[i] for i in axb):
                n += 1
                key = (tuple(sa[i] for i in fa), tuple(sb[i] for i in fb))
                acc[key] = acc.get(key, 0) + 1
    return n, max(acc.values(), default=0)


# ---------------------------------------------------------------- matrices --


@st.composite
def matrix_specs(draw, ferm=None, syms=SYMS4, data=None, square=False,
                 hermitian=False, max_size=4, lazy=True, dtype=None,
                 allow_missing=True, elongated=True):
    """Spec of a symmetric matrix (two legs).

    square=True: every block is square and all blocks are present (column
    table derived from the row table through the total charge).
    hermitian=True: legs (ix, conj ix), identity charge, Hermitian blocks."""
    symm = draw(st.sampled_from(list(syms)))
    if ferm is None:
        ferm = draw(st.booleans())
    if symm == "Z4":
        ferm = False
    ix0 = draw(index_specs(symm, max_charges=3, max_size=max_size,
                           min_charges=draw(st.sampled_from([1, 2, 2, 3]))))
    if hermitian:
        ix1 = conj_index_spec(ix0)
        charge = G.identity(symm)
        idxs = [ix0, ix1]
        kind = "herm"
    elif square:
        d1 = draw(st.booleans())
        q = draw(st.sampled_from(GEN_POOLS[symm]))
        # column charge paired with each row charge
        cm1 = {}
        for c0, d in ix0["cm"].items():
            # signed(c0) + signed(c1) = q  ->  c1
            t = G.combine(symm, q, G.neg(symm, G.signed(symm, c0, ix0["dual"])))
            c1 = G.signed(symm, t, d1)
            cm1[c1] = d
        ix1 = {"cm": dict(sorted(cm1.items())), "dual": d1}
        charge = q
        idxs = [ix0, ix1]
        kind = "wellcond"
    else:
        ix1 = draw(index_specs(symm, max_charges=3, max_size=max_size,
                               min_charges=draw(st.sampled_from([1, 2, 2, 3]))))
        if elongated and draw(st.integers(0, 5)) == 0:
            # strongly elongated blocks (one side > 4x the other, short side
            # >= 2): long thin / short wide
            long_ = {c: draw(st.integers(9, 14)) for c in ix0["cm"]}
            short = {c: draw(st.integers(2, 3)) for c in ix1["cm"]}
            if draw(st.booleans()):
                ix0, ix1 = dict(ix0, cm=long_), dict(ix1, cm=short)
            else:
                ix0 = dict(ix0, cm={c: draw(st.integers(2, 3))
                                    for c in ix0["cm"]})
                ix1 = dict(ix1, cm={c: draw(st.integers(9, 14))
                                    for c in ix1["cm"]})
        idxs = [ix0, ix1]
        charge = None
        kind = data or draw(st.sampled_from(["gauss", "gauss", "lowrank"]))
    if dtype is None:
        dtype = draw(st.sampled_from(["float64", "complex128"]))
    spec = draw(array_specs(
        symm=symm, ferm=ferm, idxs=idxs, charge=charge, dtype=dtype,
        data=kind, allow_empty=False,
        sparsity="full" if (square or not allow_missing) else None,
        phases=None if lazy else []))
    return spec


@st.composite
def fused_matrix_specs(draw, ferm=None, syms=SYMS4):
    """a rank 3-4 array and two axis groups covering all axes: fusing gives a
    matrix whose legs carry sub-index information"""
    spec = draw(array_specs(ferm=ferm, syms=syms, min_ndim=3, max_ndim=4,
                            max_size=2, data="gauss", allow_empty=False))
    nd = len(spec["idxs"])
    perm = draw(st.permutations(list(range(nd))))
    k = draw(st.integers(1, nd - 1))
    return {"x": spec, "groups": [list(perm[:k]), list(perm[k:])]}


def build_fused_matrix(case):
    x = build(case["x"])
    if not x.blocks:
        return None
    return x.fuse(*[tuple(g) for g in case["groups"]])

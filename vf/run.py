"""CLI: python -m vf.run <ID> <quick|thorough> [--replay F] [--laws a,b]
[--cases N] [--procs P]

Exit codes: 0 held on everything explored, 1 violation, 2 harness error.
"""

import argparse
import collections
import glob
import hashlib
import importlib
import json
import multiprocessing
import os
import sys
import time
import traceback

from .core import (
    Discrepancy,
    HarnessError,
    HypChooser,
    ReplayChooser,
    Skip,
    _is_hyp,
    case_hash,
    dec,
    dumps,
    enc,
    lib_frame,
    raise_sig,
    repo_root,
    tier,
)

HERE = os.path.dirname(os.path.dirname(os.path.abspath(__file__)))
NPROC = int(os.environ.get("VERIF_PROCS", "16"))


def shard_seed(seed, pid, law, shard, attempt=0):
    h = hashlib.sha256(f"{seed}/{pid}/{law}/{shard}/{attempt}".encode())
    return int.from_bytes(h.digest()[:8], "big") >> 1


class ShardResult:
    def __init__(self, law):
        self.law = law
        self.evaluations = 0
        self.skipped_cases = 0
        self.nontrivial = set()
        self.labels = collections.Counter()
        self.counters = collections.Counter()
        self.abort = False
        self.skipped_sigs = collections.Counter()
        self.failures = {}  # sig -> (size, msg, draws)
        self.samples = []
        self.harness_error = None
        self.wall = 0.0
        self.exhaustive_cases = 0

    def account(self, ch, max_samples=2):
        self.evaluations += 1
        for lab in ch.labels:
            self.labels[lab] += 1
        for k, v in ch.counters.items():
            self.counters[k] += v
        if ch.nontrivial:
            h = case_hash(ch.draws)
            if h not in self.nontrivial:
                self.nontrivial.add(h)
                if len(self.samples) < max_samples:
                    sample = {"draws": enc(ch.draws)}
                    if getattr(ch, "notes", None):
                        sample["meaning"] = list(ch.notes)
                    self.samples.append(sample)

    def note_failure(self, ch, sig, msg):
        size = len(dumps(ch.draws))
        old = self.failures.get(sig)
        if old is None or size < old[0]:
            self.failures[sig] = (size, msg, enc(ch.draws))


NONTERM = "no-result:does-not-terminate"


class CaseTimeout(BaseException):
    """raised by the watchdog inside a case (BaseException: library code and
    the harness' `attempt` must not swallow it)"""


def _case_limit():
    """seconds after which a single case is taken not to terminate.  Cases
    take milliseconds to a few seconds; the limit is ~100x the slowest one,
    and a case that hits it is run a second time with three times the limit
    before it is reported."""
    try:
        return float(os.environ["VF_CASE_TIMEOUT"])
    except (KeyError, ValueError):
        return 120.0 if tier() == "quick" else 300.0


def _run_with_watchdog(fn, ch, limit):
    import signal
    import threading

    if (threading.current_thread() is not threading.main_thread()
            or not hasattr(signal, "setitimer")):
        return fn(ch)

    def handler(signum, frame):
        raise CaseTimeout()

    old = signal.signal(signal.SIGALRM, handler)
    signal.setitimer(signal.ITIMER_REAL, limit)
    try:
        return fn(ch)
    finally:
        signal.setitimer(signal.ITIMER_REAL, 0)
        signal.signal(signal.SIGALRM, old)


def _call_law(law, ch, res, skip, target):
    """Run one case.  Returns None if it passed / was skipped, else the
    signature of the discrepancy (after recording it)."""
    try:
        limit = _case_limit()
        af = os.environ.get("VF_ABORT_FILE")
        if af and os.path.exists(af):
            res.abort = True
            res.skipped_cases += 1
            return None
        try:
            _run_with_watchdog(law.fn, ch, limit)
        except CaseTimeout:
            # confirm on the same drawn values with a longer limit: only a
            # case that does not finish twice is reported
            t0 = time.time()
            ch2 = ReplayChooser(dec(enc(ch.draws)))
            try:
                _run_with_watchdog(law.fn, ch2, 3 * limit)
            except CaseTimeout:
                raise Discrepancy(
                    NONTERM,
                    f"the case did not finish within {limit:.0f} s and, run "
                    f"again on the same drawn values, not within "
                    f"{3 * limit:.0f} s (cases of this law take well under a "
                    f"second)") from None
            except BaseException:
                pass
            res.counters["case-timeouts-not-confirmed"] += 1
            res.skipped_cases += 1
            return None
    except Skip:
        res.skipped_cases += 1
        return None
    except Discrepancy as d:
        sig, msg = d.sig, d.msg
    except HarnessError:
        raise
    except MemoryError as e:
        raise HarnessError(f"out of memory: {e}") from None
    except RecursionError as e:
        sig, msg = "raises:RecursionError", "unbounded recursion"
    except Exception as e:
        if _is_hyp(e):
            raise
        if lib_frame(e) is None:
            raise HarnessError(
                "".join(traceback.format_exception(e))[-3000:]
            ) from e
        sig = raise_sig(e)
        msg = f"unexpected {type(e).__name__}: {e}"
    else:
        res.account(ch)
        return None
    if sig == NONTERM:
        # nothing can be explored behind a case that does not return: the
        # shard stops here (no shrinking, no further rounds), and so do the
        # others
        res.abort = True
        af = os.environ.get("VF_ABORT_FILE")
        if af:
            try:
                open(af, "w").close()
            except OSError:
                pass
    if sig in skip:
        res.skipped_sigs[sig] += 1
        return None
    res.note_failure(ch, sig, msg)
    return sig


def run_hyp_shard(law, n, seedval, tier, skip):
    from hypothesis import HealthCheck, Phase, given, seed, settings
    from hypothesis import strategies as st

    res = ShardResult(law.name)
    t0 = time.time()
    state = {"stop": False, "first_fail": None, "target": None}
    budget = 15.0 if tier == "quick" else 120.0

    @seed(seedval)
    @settings(
        max_examples=n,
        database=None,
        deadline=None,
        derandomize=False,
        report_multiple_bugs=False,
        suppress_health_check=list(HealthCheck),
        phases=(Phase.generate, Phase.shrink),
    )
    @given(st.data())
    def test(data):
        if state["stop"]:
            return
        if (
            state["first_fail"] is not None
            and time.time() - state["first_fail"] > budget
        ):
            state["stop"] = True
            return
        ch = HypChooser(data)
        try:
            sig = _call_law(law, ch, res, skip, state["target"])
        except HarnessError as e:
            res.harness_error = str(e)
            state["stop"] = True
            return
        if res.abort:
            state["stop"] = True
            return
        if sig is None:
            return
        if state["target"] is None:
            state["target"] = sig
            state["first_fail"] = time.time()
        if sig == state["target"]:
            raise Discrepancy(sig, "")
        # a different root cause met while shrinking: remembered, not chased

    try:
        test()
    except Discrepancy:
        pass
    except BaseException as e:  # Flaky etc. after the shrink budget ran out
        if not res.failures and res.harness_error is None:
            if not _is_hyp(e):
                res.harness_error = "".join(traceback.format_exception(e))[
                    -3000:
                ]
            else:
                res.harness_error = f"hypothesis: {type(e).__name__}: {e}"[
                    :2000
                ]
    res.wall = time.time() - t0
    return res


def run_enum_shard(law, tier, shard, nshards, skip):
    res = ShardResult(law.name)
    t0 = time.time()
    for i, case in enumerate(law.cases(tier)):
        if i % nshards != shard:
            continue
        ch = ReplayChooser([["case", case]])
        try:
            _call_law(law, ch, res, skip, None)
        except HarnessError as e:
            res.harness_error = str(e)
            break
        if res.abort:
            break
        res.exhaustive_cases += 1
    res.wall = time.time() - t0
    return res


def _worker(task):
    pid, law_i, shard, nshards, n, seed, tier, skip = task
    mod = importlib.import_module(f"vf.props.{pid.lower()}")
    law = mod.LAWS[law_i]
    skip = set(skip)
    out = []
    try:
        if law.kind == "enum":
            out.append(run_enum_shard(law, tier, shard, nshards, skip))
        else:
            for attempt in range(5):
                r = run_hyp_shard(
                    law,
                    n,
                    shard_seed(seed, pid, law.name, shard, attempt),
                    tier,
                    skip,
                )
                out.append(r)
                if not r.failures or r.harness_error or r.abort:
                    break
                skip |= set(r.failures)
    except BaseException as e:
        r = ShardResult(law.name)
        r.harness_error = "".join(traceback.format_exception(e))[-3000:]
        out.append(r)
    return out


def load_known():
    p = os.path.join(HERE, "known_findings.json")
    if not os.path.exists(p):
        return []
    with open(p) as f:
        return json.load(f).get("findings", [])


def run_replay_file(mod, path):
    """Returns (sig or None, msg)."""
    with open(path) as f:
        rec = json.load(f)
    laws = {l.name: l for l in mod.LAWS}
    law = laws.get(rec["law"])
    if law is None:
        raise HarnessError(f"{path}: unknown law {rec['law']}")
    ch = ReplayChooser(dec(rec["draws"]))
    res = ShardResult(law.name)
    sig = _call_law(law, ch, res, set(), None)
    if sig is None:
        return None, ""
    return sig, res.failures[sig][1]


def main(argv=None):
    ap = argparse.ArgumentParser()
    ap.add_argument("pid")
    ap.add_argument("tier", nargs="?", default=None)
    ap.add_argument("--replay")
    ap.add_argument("--laws")
    ap.add_argument("--cases", type=int)
    ap.add_argument("--procs", type=int, default=NPROC)
    ap.add_argument("--no-evidence", action="store_true")
    args = ap.parse_args(argv)

    pid = args.pid.upper()
    tier = args.tier or os.environ.get("VERIF_TIER") or "quick"
    if tier not in ("quick", "thorough"):
        print(f"unknown tier {tier}")
        return 2
    seed = int(os.environ.get("VERIF_SEED", "1"))
    os.environ["VF_TIER"] = tier
    # shards tell each other through this file that a case did not terminate
    # (nothing can be explored behind it; without this every shard of every
    # law would sit through the watchdog on its own)
    import tempfile

    abort_dir = tempfile.mkdtemp(prefix="vf_abort_")
    os.environ["VF_ABORT_FILE"] = os.path.join(abort_dir, "nonterm")
    import atexit
    import shutil

    atexit.register(shutil.rmtree, abort_dir, True)
    t0 = time.time()

    import warnings

    warnings.filterwarnings("ignore", category=UserWarning)
    try:
        import symmray

        root = repo_root()
        if not os.path.realpath(symmray.__file__).startswith(root + os.sep):
            print(
                f"HARNESS-ERROR: symmray imported from {symmray.__file__}, "
                f"expected under {root}"
            )
            return 2
        mod = importlib.import_module(f"vf.props.{pid.lower()}")
    except Exception:
        traceback.print_exc()
        print("HARNESS-ERROR: import failed")
        return 2

    known = [k for k in load_known() if k["property"] == pid]
    open_sigs = {k["signature"]: k for k in known if k["status"] == "open"}

    # ------------------------------------------------------ single replay
    if args.replay:
        try:
            sig, msg = run_replay_file(mod, args.replay)
        except HarnessError as e:
            print(f"HARNESS-ERROR: {e}")
            return 2
        if sig is None:
            print(f"replay {args.replay}: property held")
            return 0
        if sig in open_sigs:
            print(f"KNOWN-FINDING: property={pid} {open_sigs[sig]['what']}")
            return 0
        print(f"  {sig}: {msg}"[:1500])
        print(f"VIOLATION property={pid} replay={args.replay}")
        return 1

    laws = list(enumerate(mod.LAWS))
    if args.laws:
        want = set(args.laws.split(","))
        laws = [(i, l) for i, l in laws if l.name in want]

    violations = []  # (sig, msg, path)
    harness_errors = []
    known_hit = collections.Counter()

    # -------------------------------------------------------- replay tier
    replay_dir = os.path.join(HERE, "replays", pid)
    replayed = 0
    for path in sorted(glob.glob(os.path.join(replay_dir, "*.json"))):
        rel = os.path.relpath(path, HERE)
        try:
            sig, msg = run_replay_file(mod, path)
        except HarnessError as e:
            harness_errors.append(f"replay {rel}: {e}")
            continue
        replayed += 1
        if sig is None:
            continue
        if sig in open_sigs:
            known_hit[sig] += 1
        else:
            violations.append((sig, msg, rel))

    # ------------------------------------------------------ generated tier
    tasks = []
    for i, law in laws:
        if law.kind == "enum":
            ns = min(args.procs, law.max_shards)
            for s in range(ns):
                tasks.append((pid, i, s, ns, 0, seed, tier, tuple(open_sigs)))
        else:
            mult = float(os.environ.get("VF_BUDGET_MULT", "4"))
            total = args.cases or int(
                (law.quick if tier == "quick" else law.thorough) * mult)
            if total <= 0:
                continue
            ns = max(1, min(args.procs, law.max_shards, total // 10 or 1))
            per = -(-total // ns)
            for s in range(ns):
                tasks.append(
                    (pid, i, s, ns, per, seed, tier, tuple(open_sigs))
                )

    results = []
    if tasks:
        if args.procs <= 1:
            for t in tasks:
                results.extend(_worker(t))
        else:
            ctx = multiprocessing.get_context("fork")
            with ctx.Pool(min(args.procs, len(tasks))) as pool:
                for out in pool.imap_unordered(_worker, tasks, chunksize=1):
                    results.extend(out)

    per_law = {}
    nontrivial = set()
    evaluations = 0
    found = {}
    for r in results:
        d = per_law.setdefault(
            r.law,
            {
                "evaluations": 0,
                "distinct_nontrivial": set(),
                "labels": collections.Counter(),
                "counters": collections.Counter(),
                "skipped_by_signature": collections.Counter(),
                "skipped_cases": 0,
                "samples": [],
                "enumerated": 0,
            },
        )
        d["evaluations"] += r.evaluations
        d["distinct_nontrivial"] |= r.nontrivial
        d["labels"].update(r.labels)
        d["counters"].update(r.counters)
        d["skipped_by_signature"].update(r.skipped_sigs)
        d["skipped_cases"] += r.skipped_cases
        d["enumerated"] += r.exhaustive_cases
        if len(d["samples"]) < 3:
            d["samples"].extend(r.samples[: 3 - len(d["samples"])])
        evaluations += r.evaluations
        nontrivial |= {f"{r.law}:{h}" for h in r.nontrivial}
        if r.harness_error:
            harness_errors.append(f"{r.law}: {r.harness_error}")
        for sig, (size, msg, draws) in r.failures.items():
            key = (r.law, sig)
            if key not in found or size < found[key][0]:
                found[key] = (size, msg, draws)
        for sig, n in r.skipped_sigs.items():
            if sig in open_sigs:
                known_hit[sig] += n

    # shrunk failing cases go to replays/<ID>/new-*.json; runs against scratch
    # copies (mutants, seeded changes) set VF_FOUND_DIR so that they never
    # leave files where a concurrent run on the real tree would replay them
    found_dir = os.environ.get("VF_FOUND_DIR") or replay_dir
    for (lawname, sig), (size, msg, draws) in sorted(found.items()):
        os.makedirs(found_dir, exist_ok=True)
        h = hashlib.sha1(f"{lawname}/{sig}".encode()).hexdigest()[:10]
        path = os.path.join(found_dir, f"new-{h}.json")
        with open(path, "w") as f:
            json.dump(
                {
                    "property": pid,
                    "law": lawname,
                    "sig": sig,
                    "msg": msg[:2000],
                    "seed": seed,
                    "tier": tier,
                    "draws": draws,
                },
                f,
                indent=1,
            )
        violations.append(
            (sig, msg, os.path.relpath(path, HERE)
             if path.startswith(HERE) else path))

    # ------------------------------------------------------------ report
    for sig, k in open_sigs.items():
        print(
            f"KNOWN-FINDING: property={pid} {k['what']} "
            f"[signature {sig}; met {known_hit.get(sig, 0)}x in this run]"
        )
    for sig, msg, path in violations:
        print(f"  {sig}: {msg}"[:1500])
        print(f"VIOLATION property={pid} replay={path}")
    for e in harness_errors:
        print("HARNESS-ERROR:", e[:3000])

    wall = time.time() - t0
    samples = []
    laws_ev = {}
    exhaustive_subspaces = []
    for name, d in per_law.items():
        for s in d["samples"]:
            if len(samples) < 6 and len(json.dumps(s)) < 8000:
                samples.append(dict({"law": name}, **s))
        laws_ev[name] = {
            "evaluations": d["evaluations"],
            "distinct_nontrivial": len(d["distinct_nontrivial"]),
            "skipped_cases": d["skipped_cases"],
            "labels": dict(d["labels"].most_common(60)),
            "counters": dict(d["counters"]),
            "skipped_by_signature": dict(d["skipped_by_signature"]),
        }
        if d["enumerated"]:
            laws_ev[name]["enumerated_completely"] = d["enumerated"]
            exhaustive_subspaces.append(name)
    if not samples:
        samples = [{"note": "no non-trivial case was generated"}]
    all_enum = bool(per_law) and all(
        l.kind == "enum" for _, l in laws if l.name in per_law
    )
    evidence = {
        "property_id": pid,
        "tier": tier,
        "seed": seed,
        "level": getattr(mod, "LEVEL", "exploration"),
        "coverage": {
            "evaluations": evaluations + replayed,
            "distinct_nontrivial": len(nontrivial),
            "rule": mod.RULE,
            "samples": samples,
            "exhaustive": all_enum,
            "exhaustive_subspaces": exhaustive_subspaces,
            "replayed_files": replayed,
            "laws": laws_ev,
            "law_docs": {l.name: l.doc for _, l in laws},
            "known_findings_met": dict(known_hit),
            "code_under_test": repo_root(),
        },
        "assumptions": list(getattr(mod, "ASSUMPTIONS", [])),
        "wall_s": round(wall, 2),
        "violations": len(violations),
    }
    if harness_errors:
        evidence["coverage"]["harness_errors"] = [e[:500] for e in harness_errors]
    if not args.no_evidence and not args.laws and not args.cases:
        os.makedirs(os.path.join(HERE, "evidence"), exist_ok=True)
        with open(os.path.join(HERE, "evidence", f"{pid}.json"), "w") as f:
            json.dump(evidence, f, indent=1, sort_keys=True)
            f.write("\n")
    print(
        f"{pid} {tier} seed={seed}: {evaluations} cases "
        f"({len(nontrivial)} distinct non-trivial), {replayed} replays, "
        f"{len(violations)} violations, {wall:.1f}s"
    )
    for name, d in laws_ev.items():
        print(
            f"   {name}: {d['evaluations']} cases, "
            f"{d['distinct_nontrivial']} non-trivial"
            + (
                f", skipped {d['skipped_by_signature']}"
                if d["skipped_by_signature"]
                else ""
            )
        )
    if violations:
        return 1
    if harness_errors:
        return 2
    return 0


if __name__ == "__main__":
    sys.exit(main())

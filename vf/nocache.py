"""Cache bypass: run library code history-free.

For the duration of the context the fuse-information cache is disabled
(no key is computed, so memoised index hash keys are neither read nor
written) and every functools.lru_cache'd helper is rebound, in every symmray
module that holds a reference to it, to its undecorated function.  On exit
the very same (warm) cache objects are restored untouched."""

import contextlib
import sys


def _modules():
    return [m for n, m in list(sys.modules.items())
            if n == "symmray" or n.startswith("symmray.")]


@contextlib.contextmanager
def no_caches():
    import symmray.abelian_core as ac

    saved = []
    for mod in _modules():
        for name, obj in list(vars(mod).items()):
            if callable(obj) and hasattr(obj, "cache_info") and hasattr(
                    obj, "__wrapped__"):
                saved.append((mod, name, obj))
                setattr(mod, name, obj.__wrapped__)
    old = ac._fuseinfo_cache_maxsize
    ac._fuseinfo_cache_maxsize = 0
    try:
        yield
    finally:
        ac._fuseinfo_cache_maxsize = old
        for mod, name, obj in saved:
            setattr(mod, name, obj)


def clear_all_caches():
    import symmray.abelian_core as ac

    ac._fuseinfos.clear()
    for mod in _modules():
        for name, obj in list(vars(mod).items()):
            if callable(obj) and hasattr(obj, "cache_clear"):
                obj.cache_clear()


def cache_counters():
    import symmray.abelian_core as ac

    return {"hit": ac._fi_hit, "missed": ac._fi_missed,
            "size": len(ac._fuseinfos)}

"""Documented axis layout of fuse: groups are inserted at the smallest fused
axis, ungrouped axes keep their order."""


def fuse_layout(ndim, groups):
    """returns (position, before, after, perm, newpos) where newpos maps every
    old axis to its axis in the fused array"""
    position = min(min(g) for g in groups)
    grouped = {a for g in groups for a in g}
    before = [a for a in range(position) if a not in grouped]
    after = [a for a in range(position, ndim) if a not in grouped]
    perm = before + [a for g in groups for a in g] + after
    newpos = {}
    for k, a in enumerate(before):
        newpos[a] = k
    for g, grp in enumerate(groups):
        for a in grp:
            newpos[a] = position + g
    for k, a in enumerate(after):
        newpos[a] = position + len(groups) + k
    return position, before, after, perm, newpos

"""Small fermionic tensor networks: generation (specs), construction and a
name-based pairwise contraction engine with several equivalent routes."""

import numpy as np
from hypothesis import strategies as st

from . import gen
from .core import must
from .model import groups as G

TOPOLOGIES = {
    # name -> (ntensors, list of bonds (i, j))
    "pair": (2, [(0, 1)]),
    "pair2": (2, [(0, 1), (0, 1)]),
    "chain3": (3, [(0, 1), (1, 2)]),
    "triangle": (3, [(0, 1), (1, 2), (0, 2)]),
    "chain3-double": (3, [(0, 1), (0, 1), (1, 2)]),
    "star": (4, [(0, 1), (0, 2), (0, 3)]),
    "chain4": (4, [(0, 1), (1, 2), (2, 3)]),
    "cycle4": (4, [(0, 1), (1, 2), (2, 3), (0, 3)]),
    "disconnected": (3, [(0, 1)]),
}


@st.composite
def network_specs(draw, topologies=None, max_dangling=2, conj_some=True,
                  odd_bias=True, closed=None, symm=None, max_size=2):
    """Spec of a network: tensors (array specs + leg names + conj flag)."""
    if topologies is None:
        topologies = list(TOPOLOGIES)
    topo = draw(st.sampled_from(topologies))
    n, bonds = TOPOLOGIES[topo]
    if symm is None:
        symm = draw(st.sampled_from(gen.SYMS4))
    if closed is None:
        closed = draw(st.integers(0, 3)) == 0
    legs = [[] for _ in range(n)]  # (name, index spec)
    for k, (i, j) in enumerate(bonds):
        ix = draw(gen.index_specs(symm, min_charges=draw(st.integers(1, 2)),
                                  max_size=max_size))
        if draw(st.booleans()):
            i, j = j, i
        legs[i].append((f"b{k}", ix))
        legs[j].append((f"b{k}", gen.conj_index_spec(ix)))
    for t in range(n):
        nd = 0 if closed else draw(st.integers(0, max_dangling))
        if not legs[t] and nd == 0:
            nd = 1
        for q in range(nd):
            legs[t].append(
                (f"d{t}_{q}", draw(gen.index_specs(symm, max_size=max_size))))
    labels = draw(st.lists(st.integers(1, 60), min_size=n, max_size=n,
                           unique=True))
    many_odd = odd_bias and draw(st.booleans())
    tensors = []
    for t in range(n):
        order = draw(st.permutations(list(range(len(legs[t])))))
        lg = [legs[t][i] for i in order]
        conj = conj_some and draw(st.integers(0, 3)) == 0
        idxs = [ix for _, ix in lg]
        if conj:
            idxs = [gen.conj_index_spec(ix) for ix in idxs]
        par = 1 if many_odd and draw(st.integers(0, 9)) < 8 else None
        spec = draw(gen.array_specs(
            symm=symm, ferm=True, idxs=idxs, label=labels[t], dyn=False,
            parity=par, allow_empty=False,
            dtype=draw(st.sampled_from(["float64", "float64", "complex128"]))
        ))
        tensors.append({"spec": spec, "names": [nm for nm, _ in lg],
                        "conj": conj})
    return {"topology": topo, "symm": symm, "tensors": tensors}


def build_network(net):
    """-> list of (array, names)"""
    out = []
    for t in net["tensors"]:
        x = gen.build(t["spec"])
        if t["conj"]:
            x = must(x.conj, what="conj")
        out.append((x, list(t["names"])))
    return out


def n_odd(net):
    return sum(
        G.parity(t["spec"]["symm"], t["spec"]["charge"])
        for t in net["tensors"])


def contract_pair(X, Y, mode="blockwise", relist=None, swap=False,
                  pre=None, via="tensordot"):
    """Contract two named tensors over all shared names.

    relist : permutation applied to the order in which the shared pairs are
             listed;  swap : pass Y first;  pre : (which, perm) fermionic
             transpose applied to one operand first;  via : 'tensordot',
             'outer-einsum' (outer product then einsum trace) or
             'split' (first shared leg by tensordot, the rest by einsum)."""
    import symmray as sr

    (x, nx), (y, ny) = X, Y
    if pre is not None:
        which, perm = pre
        if which == 0:
            x = must(x.transpose, tuple(perm), what="transpose")
            nx = [nx[p] for p in perm]
        else:
            y = must(y.transpose, tuple(perm), what="transpose")
            ny = [ny[p] for p in perm]
    if swap:
        x, nx, y, ny = y, ny, x, nx
    shared = [n for n in nx if n in ny]
    if relist is not None and len(shared) > 1:
        shared = [shared[i] for i in relist]
    ax = [nx.index(n) for n in shared]
    ay = [ny.index(n) for n in shared]
    fx = [n for n in nx if n not in shared]
    fy = [n for n in ny if n not in shared]
    if via == "tensordot" or not shared:
        r = must(sr.tensordot, x, y, (ax, ay), mode=mode, preserve_array=True,
                 what=f"tensordot[{mode}]")
        return r, fx + fy
    if via == "split" and len(shared) >= 2:
        r = must(sr.tensordot, x, y, ([ax[0]], [ay[0]]), mode=mode,
                 preserve_array=True, what=f"tensordot[{mode}]")
        names = [n for n in nx if n != shared[0]] + [
            n for n in ny if n != shared[0]]
    else:
        r = must(sr.tensordot, x, y, 0, mode="blockwise", preserve_array=True,
                 what="outer")
        names = nx + ny
    # einsum-trace the remaining shared names
    letters = {}
    for n in names:
        letters.setdefault(n, chr(ord("a") + len(letters)))
    lhs = "".join(letters[n] for n in names)
    keep = [n for n in names if names.count(n) == 1]
    rhs = "".join(letters[n] for n in keep)
    r = must(r.einsum, f"{lhs}->{rhs}", preserve_array=True, what="einsum")
    return r, keep


def to_order(r, names, order):
    """fermionic transpose of a named result into the given name order"""
    perm = tuple(names.index(n) for n in order)
    if list(perm) == list(range(len(perm))):
        return r
    return must(r.transpose, perm, what="transpose")

"""C06 — contraction commutes with fusing, and all contraction strategies
agree."""

import numpy as np
from hypothesis import strategies as st

from .. import gen
from ..compare import dense_equal, index_struct, same_array
from ..core import Discrepancy, Law, must, require
from ..layout import fuse_layout
from ..model import dense as D
from ..model import groups as G
from ..model.audit import require_valid

PROPERTY_ID = "C06"
RULE = (
    "Hypothesis-generated contractible pairs (abelian incl. Z4 and fermionic; "
    "even/odd parity with distinct labels; pending signs; independently "
    "sparse operands; >=1 contracted axis in drawn order), optionally with a "
    "free-leg group of one operand fused beforehand by the library. Laws: "
    "(a) contracting the listed pairs == aligning, fusing the contracted legs "
    "of each operand into one and contracting that pair (fuse strategy "
    "insert/concat/auto); (b) fusing free legs before contraction == fusing "
    "the corresponding legs of the result (compared element by element on "
    "elementary legs); (c) fused == blockwise == auto as arrays (rank, "
    "per-leg direction, charge table, fuse bookkeeping, labels, values). "
    "Non-trivial: the operands' stored sectors differ on the contracted legs, "
    "or a pre-fused free leg is present."
)
ASSUMPTIONS = [
    "integer-valued data: all three strategies must agree exactly",
]
ALLSYMS = ("Z2", "U1", "Z2Z2", "U1U1", "Z4")


def sectors_differ_on_contracted(pair):
    a, b = pair["a"], pair["b"]
    ka = {tuple(s[i] for i in pair["axes_a"]) for s in a["sectors"]}
    kb = {tuple(s[i] for i in pair["axes_b"]) for s in b["sectors"]}
    return ka != kb


def tdot(a, b, axes, mode, what):
    import symmray as sr

    return must(sr.tensordot, a, b, axes, mode=mode, preserve_array=True,
                what=what)


def free_ref(a, b, axes_a, axes_b):
    return [dict(a.indices[i].chargemap) for i in range(a.ndim)
            if i not in axes_a] + [dict(b.indices[i].chargemap)
                                   for i in range(b.ndim) if i not in axes_b]


def labels_of(x):
    return tuple(map(repr, getattr(x, "oddpos", ())))


def law_fused_pair(ch, many=False):
    """(a) contraction over several pairs == contraction of one fused pair"""
    ferm = ch.boolean("ferm")
    if many:
        # many thin legs: 5-7 contracted pairs (sign rules that depend on the
        # number of odd legs in a group only differ from simpler ones there)
        pair = ch.draw(
            gen.contraction_pairs(ferm=ferm, min_con=5, max_ndim=8,
                                  ncon_choices=(5, 6, 6, 7, 7), max_size=1,
                                  max_charges=2, keep_full=1.0,
                                  syms=("Z2", "U1")), "pair")
    else:
        pair = ch.draw(
            gen.contraction_pairs(ferm=ferm, min_con=1,
                                  syms=gen.SYMS4 if ferm else ALLSYMS), "pair")
    a, b = gen.build(pair["a"]), gen.build(pair["b"])
    A, B = list(pair["axes_a"]), list(pair["axes_b"])
    mode = ch.choice(["fused", "blockwise", "auto"], "mode")
    direct = tdot(a, b, (A, B), mode, "tensordot")
    ref = free_ref(a, b, A, B)
    a2, b2 = must(a.align_axes, b, (tuple(A), tuple(B)), what="align_axes")
    if not a2.blocks or not b2.blocks:
        require(
            not np.any(D.dense_of(direct, ref=ref)),
            "aligned-empty-but-nonzero",
            "alignment leaves nothing but the direct result is non-zero")
        ch.label("nothing-aligned")
        return
    fmode = ch.choice(["auto", "insert", "concat"], "fuse-mode")
    fkw = {} if ferm else {"mode": fmode}
    af = must(a2.fuse, tuple(A), what="fuse(a)", **fkw)
    bf = must(b2.fuse, tuple(B), what="fuse(b)", **fkw)
    pa = fuse_layout(a.ndim, [A])[0]
    pb = fuse_layout(b.ndim, [B])[0]
    mode2 = ch.choice(["fused", "blockwise", "auto"], "mode2")
    via = tdot(af, bf, ((pa,), (pb,)), mode2, "tensordot(fused pair)")
    require(via.ndim == direct.ndim, "fused-pair:rank",
            lambda: f"{via.ndim} vs {direct.ndim}")
    require(via.charge == direct.charge, "fused-pair:charge", "")
    require(list(via.duals) == list(direct.duals), "fused-pair:duals", "")
    require(labels_of(via) == labels_of(direct), "fused-pair:labels",
            lambda: f"{labels_of(via)} vs {labels_of(direct)}")
    dense_equal(D.dense_of(via, ref=ref), D.dense_of(direct, ref=ref),
                "fused-pair:value", what=f"{mode} vs fuse+{mode2}")
    ch.label("ferm" if ferm else "abel")
    ch.label(f"ncon={len(A)}")
    if ferm and (G.parity(pair["a"]["symm"], pair["a"]["charge"])
                 or G.parity(pair["b"]["symm"], pair["b"]["charge"])):
        ch.label("odd")
    ch.mark_nontrivial(sectors_differ_on_contracted(pair))


@st.composite
def free_group_cases(draw):
    ferm = draw(st.booleans())
    pair = draw(gen.contraction_pairs(
        ferm=ferm, min_con=draw(st.sampled_from([0, 1, 1, 1])),
        syms=gen.SYMS4 if ferm else ALLSYMS))
    return pair


def law_free_group(ch):
    """(b) fusing free legs before contraction == fusing them afterwards"""
    pair = ch.draw(free_group_cases(), "pair")
    ferm = pair["a"]["ferm"]
    a, b = gen.build(pair["a"]), gen.build(pair["b"])
    A, B = list(pair["axes_a"]), list(pair["axes_b"])
    which = ch.choice(["a", "b"], "which")
    op, opaxes = (a, A) if which == "a" else (b, B)
    free = [i for i in range(op.ndim) if i not in opaxes]
    if len(free) < 2:
        which = "b" if which == "a" else "a"
        op, opaxes = (a, A) if which == "a" else (b, B)
        free = [i for i in range(op.ndim) if i not in opaxes]
        if len(free) < 2:
            return
    k = ch.integer(2, len(free), "k")
    grp = [free[i] for i in ch.perm(len(free), "gperm")[:k]]
    mode = ch.choice(["fused", "blockwise", "auto"], "mode")
    if not op.blocks:
        return
    opf = must(op.fuse, tuple(grp), what="fuse(operand)")
    _, _, _, _, newpos = fuse_layout(op.ndim, [grp])
    if which == "a":
        before = tdot(opf, b, ([newpos[i] for i in A], B), mode, "tensordot")
    else:
        before = tdot(a, opf, (A, [newpos[i] for i in B]), mode, "tensordot")
    r = tdot(a, b, (A, B), mode, "tensordot")
    fa = [i for i in range(a.ndim) if i not in A]
    fb = [i for i in range(b.ndim) if i not in B]
    if which == "a":
        g2 = [fa.index(i) for i in grp]
    else:
        g2 = [len(fa) + fb.index(i) for i in grp]
    if not r.blocks:
        require(not before.blocks or not any(
            np.any(np.asarray(v)) for v in before.blocks.values()),
            "free-group:zero", "result is zero only on one route")
        return
    after = must(r.fuse, tuple(g2), what="fuse(result)")
    require(after.ndim == before.ndim, "free-group:rank",
            lambda: f"{before.ndim} vs {after.ndim}")
    require(list(after.duals) == list(before.duals), "free-group:duals",
            lambda: f"{before.duals} vs {after.duals}")
    require(after.charge == before.charge, "free-group:charge", "")
    require(labels_of(after) == labels_of(before), "free-group:labels",
            lambda: f"{labels_of(before)} vs {labels_of(after)}")
    require_valid(before, "free-group:invalid", "fuse-then-contract")
    e1 = D.elements(before)
    e2 = D.elements(after)
    if e1 != e2:
        keys = [k for k in set(e1) | set(e2) if e1.get(k) != e2.get(k)]
        raise Discrepancy(
            "free-group:value",
            f"group {grp} of {which}, mode {mode}: {len(keys)} elements "
            f"differ, e.g. {keys[0]}: {e1.get(keys[0])} vs {e2.get(keys[0])}")
    # unfusing the leg of the fuse-then-contract result gives the direct
    # contraction again (legs brought to the same order)
    pos_f = [k for k, ix in enumerate(before.indices)
             if ix.subinfo is not None]
    if len(pos_f) == 1 and before.blocks:
        un = must(before.unfuse, pos_f[0], what="unfuse(result)")
        # leg order after unfusing: the group's axes in listed order at the
        # fused position; bring r to that order
        nfa = len(fa)
        rest = [k for k in range(r.ndim) if k not in g2]
        order = rest[:pos_f[0]] + list(g2) + rest[pos_f[0]:]
        rt = must(r.transpose, tuple(order), what="transpose")
        require(un.ndim == rt.ndim and list(un.duals) == list(rt.duals),
                "free-group:unfuse-structure",
                lambda: f"{un.duals} vs {rt.duals}")
        ref_u = [dict(ix.chargemap) for ix in rt.indices]
        try:
            du = D.dense_of(un, ref=ref_u)
        except Discrepancy:
            ref_u = [dict(ix.chargemap) for ix in un.indices]
            du = D.dense_of(un, ref=ref_u)
        dense_equal(du, D.dense_of(rt, ref=ref_u), "free-group:unfuse-value",
                    what=f"unfuse(fuse-then-contract) vs contract, group "
                         f"{grp} of {which}, mode {mode}")
    ch.label("ferm" if ferm else "abel")
    ch.mark_nontrivial(gen.is_sparse(pair["a"]) or gen.is_sparse(pair["b"]))


@st.composite
def strategy_cases(draw):
    ferm = draw(st.booleans())
    pair = draw(gen.contraction_pairs(
        ferm=ferm, min_con=draw(st.sampled_from([0, 1, 1, 1, 1])),
        syms=gen.SYMS4 if ferm else ALLSYMS))
    return pair


def law_strategies(ch):
    """(c) fused == blockwise == auto, also with pre-fused free legs"""
    pair = ch.draw(strategy_cases(), "pair")
    ferm = pair["a"]["ferm"]
    a, b = gen.build(pair["a"]), gen.build(pair["b"])
    A, B = list(pair["axes_a"]), list(pair["axes_b"])
    prefused = False
    for which in ("a", "b"):
        op, axes = (a, A) if which == "a" else (b, B)
        free = [i for i in range(op.ndim) if i not in axes]
        if len(free) >= 2 and op.blocks and ch.boolean(f"prefuse-{which}",
                                                        p=0.5):
            k = ch.integer(2, len(free), f"k-{which}")
            grp = [free[i] for i in ch.perm(len(free), f"gperm-{which}")[:k]]
            opf = must(op.fuse, tuple(grp), what="prefuse")
            newpos = fuse_layout(op.ndim, [grp])[4]
            if which == "a":
                a, A = opf, [newpos[i] for i in A]
            else:
                b, B = opf, [newpos[i] for i in B]
            prefused = True
            if len(free) == k:
                ch.label("sole-free-leg-prefused")
    res = {m: tdot(a, b, (A, B), m, f"tensordot[{m}]")
           for m in ("blockwise", "fused", "auto")}
    base = res["blockwise"]
    fa = [i for i in range(a.ndim) if i not in A]
    fb = [i for i in range(b.ndim) if i not in B]
    legs = [a.indices[i] for i in fa] + [b.indices[i] for i in fb]
    for m, r in res.items():
        require_valid(r, f"strategy[{m}]:invalid", "result")
        require(r.ndim == len(legs), f"strategy[{m}]:rank",
                lambda: f"rank {r.ndim}, free legs {len(legs)}")
        for ax, (ri, oi) in enumerate(zip(r.indices, legs)):
            require((ri.subinfo is None) == (oi.subinfo is None),
                    f"strategy[{m}]:fusedness",
                    lambda: f"axis {ax}: operand leg fused="
                            f"{oi.subinfo is not None}, result fused="
                            f"{ri.subinfo is not None}")
            require(ri.dual == oi.dual, f"strategy[{m}]:dual", f"axis {ax}")
    for m in ("fused", "auto"):
        same_array(res[m], base, f"strategies-differ[{m} vs blockwise]",
                   exact=True)
    ch.label("ferm" if ferm else "abel")
    if prefused:
        ch.label("pre-fused-free-leg")
    ch.label(f"ncon={len(A)}")
    ch.mark_nontrivial(prefused or sectors_differ_on_contracted(pair))


LAWS = [
    Law("fused_pair", law_fused_pair, quick=2400, thorough=40000,
        doc="contract listed pairs == align, fuse contracted legs, contract "
            "one pair"),
    Law("fused_pair_many_legs", lambda ch: law_fused_pair(ch, many=True),
        quick=300, thorough=4000,
        doc="the same with 5-7 thin contracted legs per operand"),
    Law("free_group", law_free_group, quick=1600, thorough=24000,
        doc="fuse free legs then contract == contract then fuse the "
            "corresponding result legs (element by element)"),
    Law("strategies", law_strategies, quick=2400, thorough=40000,
        doc="fused == blockwise == auto (rank, directions, tables, fuse "
            "bookkeeping, labels, values), incl. pre-fused free legs"),
]

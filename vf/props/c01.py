"""C01 — every result is a valid symmetric array (charge conservation is
closed under all public operations)."""

from .. import gen, ops
from ..core import Discrepancy, Law, attempt, must, require, tier
from ..model import groups as G
from ..model.audit import audit

PROPERTY_ID = "C01"
RULE = (
    "Model-based operation histories: a pool seeded with a generated array "
    "(Z2,U1,Z2Z2,U1U1 static/dynamic, Z4 dynamic; abelian and fermionic; "
    "sparse; real/complex; pending signs); every step draws a pool member "
    "and an applicable operation from the whole catalogue (vf/ops.py: "
    "structural, fuse/unfuse/reshape, arithmetic with generated partners, "
    "contractions in every mode, einsum/trace, align_axes, qr/svd/"
    "svd_truncated/eigh, phase operations) with drawn arguments; results "
    "(every array in a returned tuple) are audited by the independent "
    "validity audit (vf/model/audit.py) and join the pool, so programs "
    "chain. An operation that raises returns nothing and is only counted. "
    "Non-trivial: >=3 successful steps of which >=1 is fuse/unfuse/reshape, "
    "a contraction or a decomposition, on a sparse or mixed-dualness start."
)
ASSUMPTIONS = [
    "validity = the clauses of the statement (signed sector totals, block "
    "shapes, sorted positive tables, exact fuse bookkeeping, sign table keys "
    "conserving with values +-1, label count parity); finiteness of data is "
    "not part of it",
    "fermionic expand_dims with an odd explicit charge is excluded (it "
    "changes the parity without a label: documented misuse)",
]
ALLSYMS = ("Z2", "U1", "Z2Z2", "U1U1", "Z4")
HEAVY = {"fuse", "unfuse", "unfuse_all", "reshape", "tensordot", "matmul",
         "einsum", "trace", "qr", "svd", "svd_truncated", "eigh",
         "contract_with_conj", "align_axes"}
WEIGHTS = {"copy": 1, "fuse": 3, "reshape": 3, "tensordot": 3, "unfuse": 2,
           "svd_truncated": 2, "qr": 2, "svd": 2, "einsum": 3, "conj": 2,
           "dagger": 2, "expand_dims": 2, "squeeze": 2}


def law_program(ch):
    spec = ch.draw(gen.array_specs(syms=ALLSYMS, max_ndim=4, max_size=2), "x0")
    x0 = gen.build(spec)
    errs = audit(x0)
    if errs:
        raise Discrepancy("construct:" + errs[0][0], errs[0][1])
    pool = [x0]
    nsteps = ch.choice(range(3, 13 if tier() == "quick" else 31), "nsteps")
    done = []
    for step in range(nsteps):
        k = ch.integer(0, len(pool) - 1, f"s{step}.pick")
        x = pool[k]
        op, args = ops.draw_op(ch, x, f"s{step}", weights=WEIGHTS)
        if op is None:
            continue
        inplace = op.inplace and ch.boolean(f"s{step}.inplace", p=0.2)
        if inplace:
            tgt = x.copy()
            ok, r = attempt(op.apply, tgt, args, inplace=True)
        else:
            ok, r = attempt(op.apply, x, args)
        if not ok:
            ch.count(f"raised:{op.name}:{type(r).__name__}")
            continue
        for y in ops.arrays_in(r):
            errs = audit(y)
            if errs:
                s, m = errs[0]
                raise Discrepancy(
                    f"{op.name}:{s}",
                    f"after {done + [op.name]}: {m}")
            if ops.is_arr(y) and y.ndim <= 6:
                pool.append(y)
        if len(pool) > 6:
            pool = pool[-6:]
        done.append(op.name)
    ch.label(f"steps={min(len(done), 10)}")
    for o in set(done):
        ch.label(f"op={o}")
    for lab in gen.spec_summary(spec)[:1] + (
            ["ferm"] if spec["ferm"] else ["abel"]):
        ch.label(lab)
    ch.mark_nontrivial(
        len(done) >= 3 and bool(HEAVY & set(done))
        and (gen.is_sparse(spec) or gen.mixed_dual(spec)))


def law_inferred_charge(ch):
    """constructing with the charge omitted yields a valid array"""
    spec = ch.draw(gen.array_specs(syms=ALLSYMS, allow_empty=False, phases=[]),
                   "x")
    if not spec["sectors"]:
        return
    cls = gen.array_class(spec["symm"], spec["ferm"], spec["dyn"])
    kw = {}
    if spec["dyn"] or spec["symm"] == "Z4":
        kw["symmetry"] = spec["symm"]
    if spec["ferm"]:
        kw["oddpos"] = spec["oddpos"]
    x = must(cls, indices=tuple(gen.build_index(i) for i in spec["idxs"]),
             blocks=gen.make_blocks(spec), what="__init__", **kw)
    errs = audit(x)
    if errs:
        raise Discrepancy("init-inferred:" + errs[0][0], errs[0][1])
    duals = [i["dual"] for i in spec["idxs"]]
    ch.mark_nontrivial(spec["symm"] in ("U1", "U1U1", "Z4") and any(duals))


LAWS = [
    Law("program", law_program, quick=3000, thorough=30000,
        doc="operation histories; independent validity audit after every "
            "step"),
    Law("inferred_charge", law_inferred_charge, quick=600, thorough=6000,
        doc="__init__ with the charge omitted gives a valid array"),
]

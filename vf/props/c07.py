"""C07 — reshape only regroups axes and is undone by reshaping back."""

import itertools

import numpy as np
from hypothesis import strategies as st

from .. import gen, ops
from ..compare import same_array, scalar_equal
from ..core import Discrepancy, Law, attempt, must, require
from ..model import dense as D
from ..model import groups as G
from ..model.audit import require_valid

PROPERTY_ID = "C07"
RULE = (
    "(i) Hypothesis-generated arrays (abelian incl. Z4, fermionic; 1-5 axes "
    "incl. size-one axes with zero and non-zero charge and an axis fused "
    "beforehand by the library; sparse; unique integer tags) reshaped to "
    "targets obtained by merging runs of adjacent axes and/or dropping "
    "size-one axes (>=1 axis stays; -1 wildcard; list/tuple; method / "
    "symmray.reshape / autoray) and back. Oracles: round trip (exact), rank, "
    "axis bounds, norm, multiset of magnitudes, identity reshape. "
    "(ii) The axis-matching routine calc_reshape_args exhaustively: every "
    "shape with <=5 axes of sizes in {1,2,3,4,6}, every distinct merge/drop "
    "target, and the reverse direction with the sub-sizes the forward plan "
    "produces; a plan is valid if simulating it (unfuse, fuse groupings of "
    "contiguous ascending axes, expand) yields exactly the requested shape. "
    "Non-trivial (i): the target needs >=1 merge and the array is sparse or "
    "has a non-zero-charge size-one axis; (ii): the target differs from the "
    "shape."
)
ASSUMPTIONS = [
    "reshape to () (dropping every axis) is out of contract",
    "fermionic arrays: magnitudes (not signs) are invariant under one "
    "reshape; the round trip is exact including signs",
]
ALLSYMS = ("Z2", "U1", "Z2Z2", "U1U1", "Z4")
SIZES = (1, 2, 3, 4, 6)


@st.composite
def reshape_arrays(draw):
    ferm = draw(st.booleans())
    symm = draw(st.sampled_from(gen.SYMS4 if ferm else ALLSYMS))
    nd = draw(st.sampled_from([1, 2, 3, 3, 4, 4, 5]))
    idxs = []
    for _ in range(nd):
        kind = draw(st.sampled_from(["any", "any", "any", "one0", "onec"]))
        if kind == "one0":
            idxs.append({"cm": {G.identity(symm): 1},
                         "dual": draw(st.booleans())})
        elif kind == "onec":
            pool = gen.GEN_POOLS[symm]
            idxs.append({"cm": {draw(st.sampled_from(pool)): 1},
                         "dual": draw(st.booleans())})
        else:
            idxs.append(draw(gen.index_specs(symm, max_size=2)))
    spec = draw(gen.array_specs(symm=symm, ferm=ferm, idxs=idxs, data="tags",
                                allow_empty=False))
    pre = None
    if nd >= 3 and draw(st.integers(0, 3)) == 0:
        i = draw(st.integers(0, nd - 2))
        pre = [i, i + 1]
        if all(sum(idxs[k]["cm"].values()) == 1 for k in pre):
            # a pre-fused axis made of size-one axes only: shapes carry no
            # information about it, any regrouping is a guess (excluded)
            pre = None
    return {"x": spec, "prefuse": pre}


def magnitudes(x):
    v = [np.abs(np.asarray(b)).ravel() for b in x.blocks.values()]
    v = np.concatenate(v) if v else np.zeros(0)
    return np.sort(v[v != 0])


def subsizes_of(x):
    return tuple(
        None if ix.subinfo is None
        else tuple(s.size_total for s in ix.subinfo.indices)
        for ix in x.indices)


def plan_unfuses(x, newshape, axis_struct):
    """Is x -> newshape inherently ambiguous because of the axis of x that
    was fused before the test (index == axis_struct)?  True iff the library's
    plan unfuses that axis AND the plan is a valid regrouping that yields
    exactly the requested shape AND the request is not the current shape:
    then a second valid regrouping (leaving the axis alone) exists and sizes
    alone cannot tell which one undoes the earlier reshape.  A plan that
    yields another shape, raises, or touches an identity reshape is NOT in
    this class (those were defects, repaired by 13ed92b)."""
    from symmray.abelian_core import calc_reshape_args
    from ..compare import index_struct

    if tuple(newshape) == tuple(x.shape):
        return False
    subs = subsizes_of(x)
    ok, plan = attempt(calc_reshape_args, tuple(x.shape), tuple(newshape),
                       subs)
    if not ok:
        return False
    if not any(index_struct(x.indices[a]) == axis_struct
               for a in plan[0] if a < x.ndim):
        return False
    try:
        got, _ = simulate(tuple(x.shape), subs, plan)
    except Discrepancy:
        return False
    return tuple(got) == tuple(newshape)


def law_arrays(ch):
    case = ch.draw(reshape_arrays(), "case")
    try:
        _law_arrays(ch, case)
    except Discrepancy as d:
        if getattr(ch, "ambiguous_prefused", False):
            # one input class, one signature (open finding): the shapes admit
            # two valid regroupings because of an axis fused before the call
            # (see plan_unfuses) and the library picks the one that does not
            # undo the earlier reshape
            raise Discrepancy("reshape:prefused-axis-regrouping-ambiguous",
                              f"[{d.sig}] {d.msg}") from None
        raise


def _law_arrays(ch, case):
    import autoray as ar
    import symmray as sr
    from ..compare import index_struct

    spec = case["x"]
    x = gen.build(spec)
    if not x.blocks:
        return
    pre_struct = None
    if case["prefuse"]:
        x = must(x.fuse, tuple(case["prefuse"]), what="prefuse")
        pre_struct = index_struct(x.indices[min(case["prefuse"])])
    shape = tuple(x.shape)
    tgt = ops.reshape_target(ch, list(shape), "t")
    arg = list(tgt)
    form = ch.choice(["tuple", "list", "minus1"], "form")
    if form == "minus1":
        k = ch.integer(0, len(arg) - 1, "wild")
        arg[k] = -1
    arg = arg if form == "list" else tuple(arg)
    ch.ambiguous_prefused = False
    if pre_struct is not None and plan_unfuses(x, tgt, pre_struct):
        ch.ambiguous_prefused = True
        ch.count("prefused-axis-regrouping-ambiguous")
    via = ch.choice(["method", "sr", "ar"], "via")
    if via == "method":
        y = must(x.reshape, arg, what="reshape")
    elif via == "sr":
        y = must(sr.reshape, x, arg, what="reshape")
    else:
        y = must(ar.do, "reshape", x, arg, what="reshape")
    require_valid(y, "reshape:invalid", f"{shape}->{tgt}")
    require(y.ndim == len(tgt), "reshape:rank",
            lambda: f"{shape}->{tgt}: rank {y.ndim}")
    require(all(a <= b for a, b in zip(y.shape, tgt)), "reshape:axis-too-big",
            lambda: f"{shape}->{tgt}: got {y.shape}")
    require(y.charge == x.charge, "reshape:charge", "")
    scalar_equal(y.norm(), x.norm(), "reshape:norm", exact=False,
                 scale=float(x.norm()), K=8)
    mx, my = magnitudes(x), magnitudes(y)
    require(mx.shape == my.shape and np.array_equal(mx, my),
            "reshape:content-changed",
            lambda: f"{shape}->{tgt}: multiset of magnitudes differs "
                    f"({len(mx)} vs {len(my)} non-zeros)")
    # and back
    if pre_struct is not None and not ch.ambiguous_prefused:
        kept = [k for k in range(y.ndim)
                if index_struct(y.indices[k]) == pre_struct]
        if kept and plan_unfuses(y, shape, pre_struct):
            ch.ambiguous_prefused = True
            ch.count("prefused-axis-regrouping-ambiguous")
    z = must(y.reshape, shape, what="reshape-back")
    same_array(z, x, "reshape:roundtrip", exact=True,
               what=f"{shape}->{tgt}->{shape}")
    # identity reshape
    w = must(x.reshape, shape, what="reshape-identity")
    same_array(w, x, "reshape:identity", exact=True)
    # the conjugate (same index objects with reversed directions) through
    # the same regrouping right afterwards
    xc = must(x.conj, what="conj")
    yc = must(xc.reshape, tuple(tgt), what="reshape(conj)")
    require_valid(yc, "reshape-conj:invalid", f"{shape}->{tgt}")
    zc = must(yc.reshape, shape, what="reshape-back(conj)")
    same_array(zc, xc, "reshape-conj:roundtrip", exact=True)
    # target with extra size-one axes (expansion)
    if ch.boolean("expand", p=0.5):
        t2 = list(tgt)
        for q in range(ch.integer(1, 2, "n-ones")):
            t2.insert(ch.integer(0, len(t2), f"one{q}"), 1)
        if len(t2) <= 6:
            if pre_struct is not None and plan_unfuses(x, t2, pre_struct):
                ch.ambiguous_prefused = True
                ch.count("prefused-axis-regrouping-ambiguous")
            e = must(x.reshape, tuple(t2), what="reshape-expand")
            require_valid(e, "reshape-expand:invalid", f"{shape}->{t2}")
            require(e.ndim == len(t2) and all(
                a <= b for a, b in zip(e.shape, t2)), "reshape-expand:shape",
                lambda: f"{shape}->{t2}: got {e.shape}")
            me = magnitudes(e)
            require(me.shape == mx.shape and np.array_equal(me, mx),
                    "reshape-expand:content-changed", f"{shape}->{t2}")
    for l in gen.spec_summary(spec):
        ch.label(l)
    merged = len(tgt) < len(shape) and any(
        d not in shape for d in tgt) or len(tgt) < len(shape)
    nzone = any(
        sum(ix["cm"].values()) == 1 and list(ix["cm"])[0] != G.identity(
            spec["symm"]) for ix in spec["idxs"])
    if nzone:
        ch.label("charged-size-one-axis")
    if case["prefuse"]:
        ch.label("pre-fused-axis")
    ch.mark_nontrivial(len(tgt) < len(shape) and (gen.is_sparse(spec)
                                                  or nzone))


# ------------------------------------------------ the axis-matching routine --


def targets(shape):
    n = len(shape)
    out = set()
    for cuts in itertools.product([0, 1], repeat=n - 1):
        groups, cur = [], [0]
        for i, c in enumerate(cuts):
            if c:
                groups.append(cur)
                cur = [i + 1]
            else:
                cur.append(i + 1)
        groups.append(cur)
        merged = [int(np.prod([shape[i] for i in g])) for g in groups]
        ones = [i for i, d in enumerate(merged) if d == 1]
        for k in range(len(ones) + 1):
            for drop in itertools.combinations(ones, k):
                t = tuple(d for i, d in enumerate(merged) if i not in drop)
                if t:
                    out.add(t)
    return out


def simulate(shape, subsizes, plan):
    """apply (unfuse, fuse groupings, expand) to a list of (size, subsizes);
    raises Discrepancy on an invalid plan"""
    axs_unfuse, axs_fuse, axs_expand = plan
    cur = [(d, s) for d, s in zip(shape, subsizes)]
    for ax in axs_unfuse:
        require(0 <= ax < len(cur) and cur[ax][1] is not None,
                "routine:unfuse-of-unfused-axis", f"axis {ax} of {cur}")
        s = cur[ax][1]
        cur = cur[:ax] + [(d, None) for d in s] + cur[ax + 1:]
    for grouping in axs_fuse:
        flat = [a for g in grouping for a in g]
        require(len(flat) > 0 and all(0 <= a < len(cur) for a in flat),
                "routine:axis-out-of-range", f"{grouping} on {cur}")
        for g in grouping:
            require(list(g) == list(range(g[0], g[0] + len(g))),
                    "routine:group-not-contiguous", f"{g}")
        require(flat == list(range(flat[0], flat[0] + len(flat))),
                "routine:groups-not-adjacent-ascending", f"{grouping}")
        newg = []
        for g in grouping:
            if len(g) == 1:
                newg.append(cur[g[0]])
            else:
                newg.append((int(np.prod([cur[a][0] for a in g])),
                             tuple(cur[a][0] for a in g)))
        cur = cur[:flat[0]] + newg + cur[flat[-1] + 1:]
    for ax in axs_expand:
        require(0 <= ax <= len(cur), "routine:expand-out-of-range", f"{ax}")
        cur.insert(ax, (1, None))
    return tuple(d for d, _ in cur), tuple(s for _, s in cur)


def routine_cases(tier):
    for nd in range(1, 6):
        for shape in itertools.product(SIZES, repeat=nd):
            yield list(shape)
    # longer shapes over a small alphabet: several adjacent merged groups
    # followed by untouched axes and further groups only exist from 6-7 axes
    for nd, sizes in ((6, (1, 2, 3)), (7, (1, 2)), (8, (1, 2))):
        if tier == "quick" and nd == 8:
            continue
        for k, shape in enumerate(itertools.product(sizes, repeat=nd)):
            if tier == "quick" and k % 3:
                continue
            yield list(shape)


def law_routine(ch):
    from symmray.abelian_core import calc_reshape_args

    shape = tuple(ch.draw(None, "case"))
    nd = len(shape)
    n = 0
    nt = False
    for t in sorted(targets(shape)):
        n += 1
        plan = must(calc_reshape_args, shape, t, (None,) * nd,
                    what="calc_reshape_args")
        got, subs = simulate(shape, (None,) * nd, plan)
        require(got == t, "routine:wrong-shape",
                lambda: f"{shape}->{t}: plan {plan} gives {got}")
        # reverse trip with the sub-sizes the forward plan produces
        rplan = must(calc_reshape_args, got, shape, subs,
                     what="calc_reshape_args(reverse)")
        back, _ = simulate(got, subs, rplan)
        require(back == shape, "routine:reverse-wrong-shape",
                lambda: f"{t}->{shape} (subsizes {subs}): plan {rplan} "
                        f"gives {back}")
        nt = nt or t != shape
        if nd <= 3:
            # targets with one or two additional size-one axes
            for p1 in range(len(t) + 1):
                t1 = t[:p1] + (1,) + t[p1:]
                for t2 in [t1] + [t1[:p2] + (1,) + t1[p2:]
                                  for p2 in range(len(t1) + 1)]:
                    n += 1
                    plan = must(calc_reshape_args, shape, t2, (None,) * nd,
                                what="calc_reshape_args")
                    got, _ = simulate(shape, (None,) * nd, plan)
                    require(got == t2, "routine:wrong-shape-expand",
                            lambda: f"{shape}->{t2}: plan {plan} gives {got}")
    ch.count("inner", n)
    ch.mark_nontrivial(nt)
    ch.label(f"ndim={nd}")


LAWS = [
    Law("arrays", law_arrays, quick=2400, thorough=40000,
        doc="reshape merge/drop targets and back: round trip, rank, axis "
            "bounds, norm, magnitudes, identity; three call forms"),
    Law("routine", law_routine, kind="enum", cases=routine_cases,
        doc="calc_reshape_args: exhaustive validity of the returned plan in "
            "both directions (all shapes with <=5 axes of sizes {1,2,3,4,6}: "
            "47655 shape/target pairs; plus 6 axes over {1,2,3} and 7-8 axes "
            "over {1,2}, every third shape in the quick tier)"),
]

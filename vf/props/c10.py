"""C10 — conjugation gives the bra: norms are positive and adjoint laws
hold."""

import numpy as np
from hypothesis import strategies as st

from .. import gen
from .. import network as N
from ..compare import same_array, scalar_equal
from ..core import Discrepancy, Law, must, require
from ..model import dense as D
from ..model import groups as G
from ..model.audit import require_valid
from .c04 import run_route

PROPERTY_ID = "C10"
RULE = (
    "Fermionic arrays (Z2,U1,Z2Z2,U1U1; 1-4 axes; every direction pattern "
    "incl. all-ket; even/odd with labels; pending signs; real/complex integer "
    "data) and networks of 2-4 tensors (drawn bond orientations, 0-2 "
    "dangling legs of either direction per tensor). Oracle: the squared norm "
    "computed by the harness (sum |dense|^2). Laws: (1) x.conj(o) . x and "
    "x . x.conj(o) over all indices == |x|^2 when all legs are ket-like or "
    "o=phase_dual; (2) the same through dagger(o)/.H with reversed axes; (3) "
    "network conjugated tensor by tensor, bra-like dangling legs sign-"
    "flipped, contracted along drawn routes == |psi|^2; (4) conj.conj and "
    "dagger.dagger == identity; (5) dagger(o) == conj(o).transpose(). "
    "Non-trivial: odd parity, or mixed directions with the option, or a "
    "network with a bra-like dangling leg."
)
ASSUMPTIONS = [
    "all-bra arrays without the dual-leg option and the option applied twice "
    "are not claimed by the statement and are not tested",
]


def norm2(x):
    d = D.dense_of(x)
    # exact for integer-valued (real or complex) data
    return float(np.sum(np.real(d) ** 2 + np.imag(d) ** 2))


@st.composite
def arrays_for_norm(draw):
    allket = draw(st.integers(0, 2)) == 0
    spec = draw(gen.array_specs(ferm=True, min_ndim=1, max_ndim=4,
                                allow_empty=False, dtype="any"))
    if allket:
        for ix in spec["idxs"]:
            ix["dual"] = False
        # charge / sectors must be recomputed for the new directions
        spec = draw(gen.array_specs(
            symm=spec["symm"], ferm=True, idxs=spec["idxs"],
            dtype=spec["dtype"], dyn=spec["dyn"], label=spec["oddpos"],
            allow_empty=False))
    return spec


def law_norm(ch):
    spec = ch.draw(arrays_for_norm(), "x")
    x = gen.build(spec)
    if not x.blocks:
        return
    check_norm(ch, x)
    for lab in gen.spec_summary(spec):
        ch.label(lab)


def law_norm_product(ch):
    """the same laws for a tensor carrying several labels (a product of
    odd / even factors), conjugated as a whole"""
    import symmray as sr
    from .c03 import product_cases

    case = ch.draw(product_cases(), "case")
    facs = [gen.build(f) for f in case["factors"]]
    T = facs[0]
    for f in facs[1:]:
        T = must(sr.tensordot, T, f, 0, what="outer")
    if not T.blocks:
        return
    check_norm(ch, T)
    check_involution(T)
    ch.label(f"nlabels={len(T.oddpos)}")
    ch.mark_nontrivial(len(T.oddpos) >= 2)


def check_norm(ch, x):
    import symmray as sr

    symm = D.symm_of(x)
    n = x.ndim
    want = norm2(x)
    allket = not any(x.duals)
    opts = [True] + ([False] if allket else [])
    o = ch.choice(opts, "phase_dual")
    mode = ch.choice(["auto", "fused", "blockwise"], "mode")
    # (phase_dual=False is the documented default: left out)
    okw = {"phase_dual": True} if o else {}
    xc = must(x.conj, what="conj", **okw)
    require_valid(xc, "conj:invalid", "x.conj()")
    require(list(xc.duals) == [not d for d in x.duals], "conj:duals", "")
    require(xc.charge == G.neg(symm, x.charge), "conj:charge",
            lambda: f"{xc.charge!r}")
    v1 = must(sr.tensordot, xc, x, n, mode=mode, what="tensordot(conj,x)")
    v2 = must(sr.tensordot, x, xc, n, mode=mode, what="tensordot(x,conj)")
    scalar_equal(v1, want, "norm:conj.x", what=f"phase_dual={o}")
    scalar_equal(v2, want, "norm:x.conj", what=f"phase_dual={o}")
    # dagger: axes reversed
    xd = must(x.dagger, what="dagger", **okw)
    require_valid(xd, "dagger:invalid", "x.dagger()")
    rev = list(range(n - 1, -1, -1))
    v3 = must(sr.tensordot, xd, x, (list(range(n)), rev), mode=mode,
              what="tensordot(dagger,x)")
    v4 = must(sr.tensordot, x, xd, (rev, list(range(n))), mode=mode,
              what="tensordot(x,dagger)")
    scalar_equal(v3, want, "norm:dagger.x", what=f"phase_dual={o}")
    scalar_equal(v4, want, "norm:x.dagger", what=f"phase_dual={o}")
    if not o:
        xh = must(lambda: x.H, what="H")
        same_array(xh, xd, "H-vs-dagger")
    ch.label("all-ket" if allket else "with-bra-legs")
    odd = G.parity(symm, x.charge) == 1
    mixed = any(x.duals) and not all(x.duals)
    ch.mark_nontrivial(odd or (o and mixed))


def law_involution(ch):
    spec = ch.draw(gen.array_specs(ferm=True, min_ndim=0, max_ndim=4), "x")
    x = gen.build(spec)
    check_involution(x)
    for lab in gen.spec_summary(spec):
        ch.label(lab)
    symm = spec["symm"]
    ch.mark_nontrivial(G.parity(symm, spec["charge"]) == 1
                       or bool(spec.get("phases")))


def check_involution(x):
    cc = must(lambda: x.conj().conj(), what="conj.conj")
    same_array(cc, x, "conj-twice")
    dd = must(lambda: x.dagger().dagger(), what="dagger.dagger")
    same_array(dd, x, "dagger-twice")
    for o in (False, True):
        d = must(x.dagger, phase_dual=o, what="dagger")
        ct = must(lambda: x.conj(phase_dual=o).transpose(),
                  what="conj.transpose")
        same_array(d, ct, f"dagger-vs-conj-transpose[phase_dual={o}]")


def law_network(ch):
    import symmray as sr

    net = ch.draw(N.network_specs(conj_some=False), "net")
    kets = N.build_network(net)
    # |psi|^2 of the contracted ket network
    (psi, names_psi), _ = run_route(ch, kets, "canon", canonical=True)
    want = norm2(psi)
    bras = []
    bra_like_dangling = False
    for (x, names) in kets:
        xc = must(x.conj, what="conj")
        flip = [k for k, nm in enumerate(names)
                if nm.startswith("d") and x.indices[k].dual]
        if flip:
            bra_like_dangling = True
            xc = must(xc.phase_flip, *flip, what="phase_flip")
        bras.append((xc, [nm if nm.startswith("d") else nm + "*"
                          for nm in names]))
    nroutes = ch.integer(1, 3, "nroutes")
    for k in range(nroutes):
        order = ch.choice(["mixed", "ket-then-bra", "bra-then-ket"],
                          f"layout{k}")
        if order == "ket-then-bra":
            tensors = kets + bras
        elif order == "bra-then-ket":
            tensors = bras + kets
        else:
            tensors = [t for pair in zip(kets, bras) for t in pair]
        if ch.boolean(f"canon{k}", p=0.3):
            (r, names), steps = run_route(ch, tensors, f"n{k}", canonical=True)
        else:
            (r, names), steps = run_route(ch, tensors, f"n{k}")
        if hasattr(r, "blocks"):
            require(r.ndim == 0, "network:rank", f"{names}")
            val = r.phase_sync().blocks.get((), 0.0)
        else:
            val = r
        scalar_equal(val, want, "network-norm", what=f"{order} via {steps}")
    ch.label(f"topology={net['topology']}")
    ch.label(f"n_odd={N.n_odd(net)}")
    if bra_like_dangling:
        ch.label("bra-like-dangling")
    ch.mark_nontrivial(bra_like_dangling or N.n_odd(net) >= 1)


LAWS = [
    Law("norm", law_norm, quick=2000, thorough=30000,
        doc="<x|x> through conj / dagger, both operand orders, == |x|^2"),
    Law("norm_product", law_norm_product, quick=800, thorough=12000,
        doc="the norm / involution / adjoint laws for products of factors "
            "carrying several labels, conjugated as a whole"),
    Law("involution", law_involution, quick=1200, thorough=16000,
        doc="conj.conj = dagger.dagger = id; dagger(o) = conj(o).transpose()"),
    Law("network", law_network, quick=1200, thorough=20000,
        doc="<psi|psi> of a network conjugated tensor by tensor along drawn "
            "routes == |psi|^2"),
]

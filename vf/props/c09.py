"""C09 — lazily tracked fermionic signs are unobservable."""

import numpy as np

from .. import gen, ops
from ..compare import dense_equal, index_struct, same_array, scalar_equal
from ..core import Discrepancy, Law, attempt, must, require, tier
from ..model import dense as D
from ..model import groups as G

PROPERTY_ID = "C09"
RULE = (
    "Model-based histories over two copies of the same fermionic tensor: L "
    "(lazy - never synchronised by the harness; starts with a drawn "
    "pending-sign recipe of phase_flip / phase_transpose / phase_global / "
    "phase_sector steps, more arise from transposes / conj during the "
    "history) and S (synchronised by the harness before every operation; "
    "partners given in synchronised form). Every step applies the same "
    "catalogue operation with identical drawn arguments to both; results "
    "must be the same tensor (sector values after applying the pending "
    "table, tables, charge, labels), scalars / dense arrays / booleans "
    "equal, decompositions equal through their reconstruction and spectra, "
    "and 'raises' versus 'returns' must agree. Also: phase_sync is "
    "idempotent, leaves the dense value unchanged and empties the table; "
    "allclose(L, S); a final sync of L equals S. Non-trivial: L's pending "
    "table is non-empty when an operation that reads block data fires, in a "
    "history of >=2 operations."
)
ASSUMPTIONS = [
    "raw storage accessors (blocks, phases, get/set_params, apply_to_arrays) "
    "expose stored data by definition and are not compared",
    "decompositions are compared up to their inherent gauge: through the "
    "reconstructed product and the sorted spectra",
]
WEIGHTS = {"fuse": 3, "reshape": 2, "tensordot": 3, "svd_truncated": 2,
           "qr": 2, "svd": 2, "eigh": 3, "add": 2, "mul": 2, "sum": 2,
           "abs": 2, "item": 2, "dagger": 2, "conj": 2, "transpose": 3,
           "unfuse": 3, "matmul": 2, "einsum": 3, "trace": 3, "to_dense": 2,
           "copy": 1, "phase_flip": 2, "phase_transpose": 2,
           "multiply_diagonal": 4, "phase_global": 4, "align_axes": 2,
           "sync_charges": 2, "squeeze": 2, "expand_dims": 2}
STALE_WEIGHTS = dict(WEIGHTS, phase_global=8, phase_flip=5, phase_transpose=5,
                     phase_sync=4, transpose=5, conj=4, dagger=4, neg=3,
                     to_dense=3, sum=3, fuse=4)


def canon(name, res):
    """gauge-invariant, comparable form of an operation's result"""
    import symmray as sr

    if name == "qr":
        q, r = res
        return ("arrays", [q @ r])
    if name == "svd":
        u, s, vh = res
        return ("arrays+vals",
                [u @ sr.multiply_diagonal(vh, s, 0)],
                sorted(np.concatenate([np.asarray(b) for b in
                                       s.blocks.values()]).tolist())
                if s.blocks else [])
    if name == "svd_truncated":
        u, s, vh = res
        prod = u @ (sr.multiply_diagonal(vh, s, 0) if s is not None else vh)
        vals = (sorted(np.concatenate([np.asarray(b) for b in
                                       s.blocks.values()]).tolist())
                if s is not None and s.blocks else [])
        return ("arrays+vals", [prod], vals)
    if name == "eigh":
        el, ev = res
        rec = sr.multiply_diagonal(ev, el, 1) @ ev.H
        vals = (sorted(np.concatenate([np.asarray(b) for b in
                                       el.blocks.values()]).tolist())
                if el.blocks else [])
        return ("arrays+vals", [rec], vals)
    if isinstance(res, tuple):
        return ("arrays", list(res))
    if isinstance(res, sr.AbelianArray):
        return ("arrays", [res])
    if isinstance(res, np.ndarray) and res.ndim > 0:
        return ("dense", res)
    if isinstance(res, (bool, np.bool_)):
        return ("bool", bool(res))
    return ("scalar", res)


def compare(name, cl, cs, where):
    sig = f"{name}:lazy-vs-synced"
    require(cl[0] == cs[0], sig + ":kind", f"{cl[0]} vs {cs[0]} {where}")
    kind = cl[0]
    exact = name not in ("qr", "svd", "svd_truncated", "eigh", "norm",
                         "sqrt_abs")
    if kind.startswith("arrays"):
        require(len(cl[1]) == len(cs[1]), sig + ":arity", where)
        for a, b in zip(cl[1], cs[1]):
            if hasattr(a, "blocks") and hasattr(b, "blocks"):
                same_array(a, b, sig, exact=exact, what=where, K=8,
                           scale=max([1.0] + [float(np.abs(v).max())
                                              for v in a.blocks.values()
                                              if np.size(v)]))
            else:
                scalar_equal(a, b, sig + ":scalar", exact=exact, what=where)
        if kind == "arrays+vals":
            va, vb = np.array(cl[2]), np.array(cs[2])
            require(va.shape == vb.shape, sig + ":spectrum-size", where)
            if va.size:
                dense_equal(va, vb, sig + ":spectrum", exact=False, what=where,
                            K=8)
    elif kind == "dense":
        dense_equal(cl[1], cs[1], sig + ":dense", exact=exact, what=where)
    elif kind == "bool":
        require(cl[1] == cs[1], sig + ":bool", where)
    else:
        scalar_equal(cl[1], cs[1], sig + ":scalar", exact=exact, what=where,
                     K=64, scale=abs(complex(cs[1])) + 1)


def expected_sign_pattern(name, args, x):
    """for the sign primitives: array over all dense positions of x with the
    sign the documented operation multiplies each element by (exactly once);
    None for other operations"""
    from ..model import graded as GR

    symm = D.symm_of(x)
    cms = [dict(ix.chargemap) for ix in x.indices]
    pars = [D.position_parities(symm, cm) for cm in cms]
    shape = [len(p) for p in pars]
    one = np.ones(shape, dtype=int)
    nd = x.ndim
    if name in ("phase_sync", "copy"):
        return one
    if name == "phase_global":
        return -one
    if name == "phase_flip":
        S = one
        for ax in args["axes"]:
            S = S * (1 - 2 * GR._bcast(pars[ax], ax, nd))
        return S
    if name == "phase_transpose":
        return GR.perm_sign_array(pars, list(args["perm"]))
    if name == "phase_sector":
        sec = sorted(x.blocks)[args["k"] % len(x.blocks)]
        S = one.copy()
        sl = []
        for ax, c in enumerate(sec):
            offs, _ = D.offsets(cms[ax])
            st_, d = offs[c]
            sl.append(slice(st_, st_ + d))
        S[tuple(sl)] = -1
        return S
    return None


def first_array(res):
    for y in ops.arrays_in(res):
        if ops.is_arr(y):
            return y
    return None


def law_history(ch):
    spec = ch.draw(gen.array_specs(ferm=True, max_ndim=4, max_size=2,
                                   allow_empty=False,
                                   phases=None), "x0")
    L = gen.build(spec, lazy=True)
    S = gen.build(spec, lazy=True).phase_sync()
    nsteps = ch.choice(range(2, 9 if tier() == "quick" else 21), "nsteps")
    run_history(ch, L, S, nsteps, WEIGHTS)


def law_stale_table(ch):
    """histories starting from a pending-sign table that also names valid
    sectors which are not stored (as left behind by operations that drop
    blocks): such entries refer to implicit zeros and must have no effect"""
    spec = ch.draw(gen.array_specs(ferm=True, max_ndim=4, max_size=2,
                                   allow_empty=False, phases=None), "x0")
    base = gen.build(spec, lazy=True)
    valid = gen.spec_valid_sectors(spec["symm"], spec["idxs"], spec["charge"])
    unstored = [tuple(s) for s in valid if tuple(s) not in base.blocks]
    if not unstored or not base.blocks:
        return
    stale = ch.subset(unstored[:8], "stale", min_size=1)
    kw = {"symmetry": spec["symm"]} if spec["dyn"] else {}
    L = must(type(base), indices=base.indices, charge=base.charge,
             blocks=dict(base.blocks),
             phases={**base.phases, **{s: -1 for s in stale}},
             oddpos=spec["oddpos"], what="__init__(phases=)", **kw)
    S = base.phase_sync()
    ch.label(f"stale={len(stale)}")
    ch.label("table-size-equals-block-count"
             if len(L.phases) == len(L.blocks) else "table-size-differs")
    nsteps = ch.choice(range(1, 5), "nsteps")
    run_history(ch, L, S, nsteps, STALE_WEIGHTS, min_done=1, min_hits=0)


def run_history(ch, L, S, nsteps, weights, min_done=2, min_hits=1):
    done = []
    hits = 0
    for step in range(nsteps):
        t = f"s{step}"
        op, args = ops.draw_op(ch, L, t, weights=weights)
        if op is None:
            break
        pending = bool(L.phases) and any(
            L.phases.get(s, 1) == -1 for s in L.blocks)
        if pending and op.reads_blocks:
            hits += 1
        S = S.phase_sync()
        require(not S.phases, "phase_sync:table-not-empty", "")
        okL, rL = attempt(op.apply, L, args, lazy=True)
        okS, rS = attempt(op.apply, S, args, lazy=False)
        where = f"after {done + [op.name]}"
        if okL != okS:
            raise Discrepancy(
                f"{op.name}:raises-on-one-copy-only",
                f"lazy ok={okL}, synced ok={okS}: {rS if okL else rL} {where}")
        if not okL:
            ch.count(f"raised:{op.name}")
            continue
        okc, cl = attempt(canon, op.name, rL)
        okd, cs = attempt(canon, op.name, rS)
        if okc != okd:
            raise Discrepancy(f"{op.name}:reconstruction-raises-on-one-copy",
                              f"{cs if okc else cl} {where}")
        if okc:
            compare(op.name, cl, cs, where)
        if op.group == "phase" or op.name == "copy":
            # the sign primitives: each requested sign is applied to the
            # value exactly once (and to nothing else)
            S_ = expected_sign_pattern(op.name, args, L)
            if S_ is not None and L.blocks and D.dense_of(L).dtype != bool:
                ref = [dict(ix.chargemap) for ix in L.indices]
                dense_equal(D.dense_of(rL, ref=ref), S_ * D.dense_of(L),
                            f"{op.name}:sign-semantics",
                            what=f"value after {op.name}({args}) {where}")
        done.append(op.name)
        nl, ns = first_array(rL), first_array(rS)
        if (nl is not None and ns is not None and nl.fermionic
                and nl.ndim <= 5 and op.group != "linalg"
                and op.name != "isfinite"):
            # (factors of a decomposition are only defined up to a gauge and
            # boolean arrays carry no signs: the history does not continue
            # from them)
            L, S = nl, ns
    # closing laws
    import symmray as sr

    if isinstance(L, sr.FermionicArray):
        d0 = D.dense_of(L)
        Ls = must(L.phase_sync, what="phase_sync")
        require(not Ls.phases, "phase_sync:table-not-empty",
                f"{dict(Ls.phases)}")
        dense_equal(D.dense_of(Ls), d0, "phase_sync:changes-value",
                    what="dense before/after sync")
        Lss = must(Ls.phase_sync, what="phase_sync")
        same_array(Lss, Ls, "phase_sync:not-idempotent", zero_is_missing=False)
        same_array(Ls, S.phase_sync(), "final-sync-differs-from-synced-copy",
                   exact=True)
        ok, r = attempt(L.allclose, S)
        require(ok and bool(r), "allclose:lazy-vs-synced",
                f"allclose(L, S) = {r}")
    ch.label(f"steps={len(done)}")
    for o in set(done):
        ch.label(f"op={o}")
    ch.count("ops-reading-blocks-with-pending-signs", hits)
    ch.mark_nontrivial(hits >= min_hits and len(done) >= min_done)


def law_linalg(ch):
    """decompositions and solve on specifically generated lazy matrices
    (Hermitian-able / square systems are too rare in random histories)"""
    import symmray as sr

    kind = ch.choice(["eigh", "eigh", "solve", "solve", "qr", "svd",
                      "svd_truncated"], "kind")
    if kind == "eigh":
        spec = ch.draw(gen.matrix_specs(ferm=True, hermitian=True,
                                        lazy=False), "m")
        h = gen.build(spec)
        if not h.blocks:
            return
        h = h + h.H
        rec = ch.draw(gen.phase_recipe(2, len(h.blocks), p_none=0.0), "recipe")
        L = gen.apply_phase_recipe(h, rec, sorted(h.blocks))
        S = L.phase_sync()
        args = {}
    elif kind == "solve":
        spec = ch.draw(gen.matrix_specs(ferm=True, square=True, lazy=True),
                       "a")
        symm = spec["symm"]
        if G.parity(symm, spec["charge"]):
            return  # open finding C11 solve:fermionic-odd-matrix
        L = gen.build(spec)
        S = L.phase_sync()
        ix0 = spec["idxs"][0]
        c_b = ch.choice(sorted(ix0["cm"]), "b-sector")
        bspec = ch.draw(gen.array_specs(
            symm=symm, ferm=True, idxs=[ix0],
            charge=G.signed(symm, c_b, ix0["dual"]), dyn=spec["dyn"],
            dtype=spec["dtype"], data="gauss", label=777), "b")
        bL = gen.build(bspec)
        bS = bL.phase_sync()
        if not bL.blocks or not L.blocks:
            return
        okL, xL = attempt(sr.linalg.solve, L, bL)
        okS, xS = attempt(sr.linalg.solve, S, bS)
        require(okL == okS, "solve:raises-on-one-copy-only", "")
        if okL:
            same_array(xL, xS, "solve:lazy-vs-synced", exact=False,
                       K=64, scale=1.0 + max(
                           [float(np.abs(v).max()) for v in xS.blocks.values()]
                           or [0.0]))
        pending = any(L.phases.get(s, 1) == -1 for s in L.blocks) or any(
            bL.phases.get(s, 1) == -1 for s in bL.blocks)
        ch.label("kind=solve")
        ch.mark_nontrivial(pending)
        return
    else:
        spec = ch.draw(gen.matrix_specs(ferm=True, lazy=True), "m")
        L = gen.build(spec)
        if not L.blocks:
            return
        S = L.phase_sync()
        args = {}
        if kind == "qr":
            args = {"stabilized": ch.boolean("stab")}
        if kind == "svd_truncated":
            args = ops._draw_svdt(ch, L, "t")
    op = ops.OPS[kind]
    if kind == "eigh":
        fn = lambda m: sr.linalg.eigh(m)
    else:
        fn = lambda m: op.apply(m, args)
    okL, rL = attempt(fn, L)
    okS, rS = attempt(fn, S)
    require(okL == okS, f"{kind}:raises-on-one-copy-only",
            f"{rS if okL else rL}")
    if okL:
        compare(kind, canon(kind, rL), canon(kind, rS), f"{kind} {args}")
    pending = any(L.phases.get(s, 1) == -1 for s in L.blocks)
    ch.label(f"kind={kind}")
    ch.mark_nontrivial(pending)


LAWS = [
    Law("history", law_history, quick=3000, thorough=60000,
        doc="same operation history on a lazy and a synchronised copy; "
            "results equal after every step; sync laws at the end"),
    Law("stale_table", law_stale_table, quick=800, thorough=12000,
        doc="histories from a table that also names unstored valid sectors"),
    Law("linalg", law_linalg, quick=1500, thorough=20000,
        doc="eigh / solve / qr / svd / svd_truncated on generated lazy "
            "matrices vs their synchronised copies"),
]

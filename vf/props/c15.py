"""C15 — results do not depend on call history, caches or threads."""

import hashlib
import json
import os
import subprocess
import sys

import numpy as np
from hypothesis import strategies as st

from .. import gen, ops
from ..compare import same_array, snapshot, snapshot_diff
from ..core import (Discrepancy, HarnessError, Law, attempt, must, repo_root,
                    require, tier)
from ..model import groups as G
from ..nocache import cache_counters, no_caches
from ..sched import Scheduler

PROPERTY_ID = "C15"
RULE = (
    "(i) Histories over a FAMILY of near-identical arrays: a base array plus "
    "single-attribute variants (one direction flipped, one size changed, one "
    "charge relabelled, one stored sector removed/added, other data, the same "
    "tables and stored sectors under another symmetry, a sibling with a leg "
    "fused beforehand from different sub-sectors) and derived objects that "
    "share memoised index objects (conj / transpose / sync_charges / copy of "
    "a member taken AFTER an operation ran on it). Each history draws 2-3 "
    "operations (fuse with drawn groups, reshape, fused-mode contraction, svd "
    "of the fused matrix) and applies each to every member in drawn order, "
    "interleaved with cache controls (size 0/1/2/8192, clear, max-sectors "
    "threshold). Oracle: the same call inside a cache bypass (vf/nocache.py). "
    "(ii) default_tensordot_mode context manager: nesting, exceptions, "
    "generator early exit, None. (iii) 2-4 threads running short lists of "
    "out-of-place operations on SHARED operands under a deterministic "
    "sys.settrace scheduler with drawn switch points (biased to the cache / "
    "hash / fuse-info code), cache sizes 1/2/8192; oracle: sequential "
    "results and unchanged operand snapshots. (iv) subprocesses with "
    "SYMMRAY_FUSE_CACHE_MAXSIZE / MAXSECTORS in {unset, 0, 1, 'x'}. "
    "Non-trivial: (i) a cache hit occurred in the history; (iii) >=1 switch "
    "landed inside cache / hash / fuse-info code."
)
ASSUMPTIONS = [
    "thread clause: line-granular interleavings of Python code under the GIL "
    "that the scheduler can produce; races inside one bytecode or C code are "
    "out of reach",
]
ALLSYMS = ("Z2", "U1", "Z2Z2", "U1U1", "Z4")


def set_cache(maxsize=None, maxsectors=None, clear=False):
    import symmray.abelian_core as ac

    if maxsize is not None:
        ac._fuseinfo_cache_maxsize = maxsize
    if maxsectors is not None:
        ac._fuseinfo_cache_maxsectors = maxsectors
    if clear:
        ac._fuseinfos.clear()
    # the LRU never shrinks by itself when the limit is lowered
    while ac._fuseinfo_cache_maxsize and len(ac._fuseinfos) > \
            ac._fuseinfo_cache_maxsize:
        ac._fuseinfos.popitem(last=False)


def reset_cache():
    set_cache(8192, 512, clear=True)


# ----------------------------------------------------------------- family ---


@st.composite
def families(draw):
    ferm = draw(st.booleans())
    symm = draw(st.sampled_from(gen.SYMS4 if ferm else ALLSYMS))
    base = draw(gen.array_specs(symm=symm, ferm=ferm, min_ndim=2, max_ndim=4,
                                max_size=2, max_charges=2, allow_empty=False,
                                dtype="float64", dyn=True, phases=[]))
    nd = len(base["idxs"])
    members = [{"kind": "base", "spec": base}]
    nvar = draw(st.integers(2, 5))
    for v in range(nvar):
        kind = draw(st.sampled_from(
            ["dual-flip", "size", "relabel", "drop-sector", "data",
             "other-symmetry", "resparse", "prefused-sibling", "drop-sector",
             "dual-flip", "other-symmetry"]))
        idxs = [{"cm": dict(ix["cm"]), "dual": ix["dual"]}
                for ix in base["idxs"]]
        ax = draw(st.integers(0, nd - 1))
        if kind == "dual-flip":
            idxs[ax]["dual"] = not idxs[ax]["dual"]
            spec = draw(gen.array_specs(symm=symm, ferm=ferm, idxs=idxs,
                                        dtype="float64", dyn=True, phases=[],
                                        label=base.get("oddpos")))
        elif kind == "size":
            c = draw(st.sampled_from(sorted(idxs[ax]["cm"])))
            idxs[ax]["cm"][c] = 3 - idxs[ax]["cm"][c] if idxs[ax]["cm"][c] \
                in (1, 2) else 1
            spec = dict(base, idxs=idxs)
        elif kind == "relabel":
            pool = [c for c in gen.GEN_POOLS[symm] if c not in idxs[ax]["cm"]]
            if not pool:
                continue
            old = draw(st.sampled_from(sorted(idxs[ax]["cm"])))
            new = draw(st.sampled_from(pool))
            cm = dict(idxs[ax]["cm"])
            cm[new] = cm.pop(old)
            idxs[ax]["cm"] = dict(sorted(cm.items()))
            spec = draw(gen.array_specs(symm=symm, ferm=ferm, idxs=idxs,
                                        dtype="float64", dyn=True, phases=[],
                                        label=base.get("oddpos")))
        elif kind in ("drop-sector", "resparse"):
            secs = gen.spec_valid_sectors(symm, idxs, base["charge"])
            keep = draw(gen.sector_subset(secs, mode="sparse"))
            spec = dict(base, sectors=keep)
        elif kind == "data":
            spec = dict(base, seed=base["seed"] + 1 + v)
        elif kind == "other-symmetry":
            others = [s for s in ("Z2", "U1", "Z4") if s != symm]
            if ferm:
                others = [s for s in others if s != "Z4"]
            if symm not in ("Z2", "U1", "Z4") or not others:
                continue
            s2 = draw(st.sampled_from(others))
            if not all(G.valid(s2, c) for ix in idxs for c in ix["cm"]):
                continue
            duals = [ix["dual"] for ix in idxs]
            tots = {G.total(s2, sec, duals) for sec in base["sectors"]}
            if len(tots) != 1:
                continue
            q = tots.pop()
            if ferm and G.parity(s2, q) != G.parity(symm, base["charge"]):
                continue
            spec = dict(base, symm=s2, charge=q,
                        nvalid=len(gen.spec_valid_sectors(s2, idxs, q)))
        else:  # prefused-sibling: handled at build time
            spec = dict(base)
            secs = gen.spec_valid_sectors(symm, idxs, base["charge"])
            spec["sectors"] = draw(gen.sector_subset(secs, mode="sparse"))
        members.append({"kind": kind, "spec": spec})
    pre = None
    if nd >= 3 and draw(st.booleans()):
        k = draw(st.integers(0, nd - 2))
        pre = [k, k + 1] if draw(st.booleans()) else [k + 1, k]
    return {"members": members, "prefuse": pre}


def build_family(fam):
    out = []
    for m in fam["members"]:
        x = gen.build(m["spec"])
        if fam["prefuse"] and x.blocks:
            ok, y = attempt(x.fuse, tuple(fam["prefuse"]))
            if ok:
                x = y
        out.append(x)
    return out


# -------------------------------------------------------------- operations --


def draw_history_op(ch, nd, tag):
    kind = ch.choice(["fuse", "fuse", "reshape", "tensordot", "svd"],
                     tag + ".kind")
    if kind == "fuse":
        perm = list(ch.perm(nd, tag + ".perm"))
        k = ch.integer(min(2, nd), nd, tag + ".k")
        axes = perm[:k]
        if k >= 3 and ch.boolean(tag + ".two"):
            cut = ch.integer(1, k - 1, tag + ".cut")
            groups = [axes[:cut], axes[cut:]]
        else:
            groups = [axes]
        return {"op": "fuse", "groups": groups}
    if kind == "reshape":
        cuts = [c for c in range(1, nd) if ch.boolean(f"{tag}.cut{c}", p=0.5)]
        if len(cuts) == nd - 1:
            cuts = cuts[1:]
        return {"op": "reshape", "cuts": cuts}
    if kind == "tensordot":
        k = ch.integer(1, min(3, nd), tag + ".ncon")
        axes = list(ch.perm(nd, tag + ".axes"))[:k]
        return {"op": "tensordot", "axes": axes,
                "swap": ch.boolean(tag + ".swap")}
    perm = list(ch.perm(nd, tag + ".perm"))
    k = ch.integer(1, nd - 1, tag + ".k")
    return {"op": "svd", "groups": [perm[:k], perm[k:]]}


def apply_history_op(x, a):
    import symmray as sr

    if a["op"] == "unfuse":
        return x.unfuse(a["axis"])
    if a["op"] == "self-add":
        return x + x
    if a["op"] == "fuse":
        return x.fuse(*[tuple(g) for g in a["groups"]])
    if a["op"] == "reshape":
        shape = list(x.shape)
        bounds = [0] + list(a["cuts"]) + [len(shape)]
        new = [int(np.prod(shape[lo:hi])) for lo, hi in
               zip(bounds[:-1], bounds[1:])]
        y = x.reshape(tuple(new))
        return y, y.reshape(tuple(shape))
    if a["op"] == "tensordot":
        axes = a["axes"]
        legs = [x.indices[i].conj() for i in axes]
        cls = type(x)
        kw = {"symmetry": G.symname(x.symmetry)}
        if x.fermionic:
            kw["oddpos"] = 4242
        y = cls.from_fill_fn(
            lambda shape: np.arange(1, 1 + int(np.prod(shape)),
                                    dtype="float64").reshape(shape),
            legs, charge=x.symmetry.combine(
                *[x.symmetry.sign(sorted(l.chargemap)[0], l.dual)
                  for l in legs]), **kw)
        ay = list(range(len(axes)))
        if a["swap"]:
            return sr.tensordot(y, x, (ay, axes), mode="fused",
                                preserve_array=True)
        return sr.tensordot(x, y, (axes, ay), mode="fused",
                            preserve_array=True)
    m = x.fuse(*[tuple(g) for g in a["groups"]])
    u, s, vh = sr.linalg.svd(m)
    return m, u, vh


def results_equal(r1, r2, sig, what):
    l1, l2 = ops.arrays_in(r1), ops.arrays_in(r2)
    require(len(l1) == len(l2), sig + ":arity", what)
    for a, b in zip(l1, l2):
        if ops.is_arr(a):
            same_array(a, b, sig, exact=True, what=what)


def derive(ch, x, tag):
    kind = ch.choice(["conj", "transpose", "sync_charges", "copy", "dagger",
                      "conj"], tag + ".derive")
    if kind == "transpose":
        return kind, x.transpose(tuple(ch.perm(x.ndim, tag + ".dperm")))
    return kind, getattr(x, kind)()


def law_history(ch):
    import symmray.abelian_core as ac

    fam = ch.draw(families(), "family")
    reset_cache()
    try:
        members = build_family(fam)
        members = [m for m in members if m.blocks]
        if not members:
            return
        nd = members[0].ndim
        if any(m.ndim != nd for m in members) or nd < 2:
            return
        nops = ch.integer(2, 3, "nops")
        hits0 = cache_counters()["hit"]
        ncalls = 0
        for k in range(nops):
            t = f"o{k}"
            ctl = ch.choice(["none", "none", "size1", "size2", "size0",
                             "clear", "sectors1", "default"], t + ".cache")
            if ctl == "size1":
                set_cache(maxsize=1)
            elif ctl == "size2":
                set_cache(maxsize=2)
            elif ctl == "size0":
                set_cache(maxsize=0)
            elif ctl == "clear":
                set_cache(clear=True)
            elif ctl == "sectors1":
                set_cache(maxsectors=1)
            elif ctl == "default":
                set_cache(8192, 512)
            a = draw_history_op(ch, nd, t)
            order = list(ch.perm(len(members), t + ".order")) \
                if len(members) <= 5 else list(range(len(members)))
            rounds = 2 if ch.boolean(t + ".twice", p=0.4) else 1
            for rnd in range(rounds):
                for i in order:
                    x = members[i]
                    what = (f"{a} on member {i} "
                            f"({fam['members'][i]['kind'] if i < len(fam['members']) else 'derived'})")
                    ok, r = attempt(apply_history_op, x, a)
                    with no_caches():
                        ok0, r0 = attempt(apply_history_op, x, a)
                    ncalls += 1
                    if ok != ok0:
                        raise Discrepancy(
                            "history:raises-only-with-cache"
                            if ok0 else "history:raises-only-without-cache",
                            f"{what}: {r if not ok else r0}")
                    if ok:
                        results_equal(r, r0, f"history:{a['op']}", what)
            # derived objects sharing (now memoised) index objects
            if ch.boolean(t + ".derive", p=0.7):
                i = ch.integer(0, len(members) - 1, t + ".from")
                kind, y = derive(ch, members[i], t)
                what = f"{a} on {kind}(member {i}) after the op ran on it"
                ok, r = attempt(apply_history_op, y, a)
                with no_caches():
                    ok0, r0 = attempt(apply_history_op, y, a)
                require(ok == ok0, "history:derived-raises-differently", what)
                if ok:
                    results_equal(r, r0, f"history:{a['op']}:derived:{kind}",
                                  what)
                if y.ndim == nd and len(members) < 8:
                    members.append(y)
        hits = cache_counters()["hit"] - hits0
        ch.count("cache-hits", hits)
        ch.count("calls", ncalls)
        ch.label(f"members={len(members)}")
        for m in fam["members"][1:]:
            ch.label("variant=" + m["kind"])
        if fam["prefuse"]:
            ch.label("pre-fused")
        ch.mark_nontrivial(hits > 0)
    finally:
        reset_cache()


# ------------------------------------------------------- context manager ----


def law_context(ch):
    import symmray as sr

    start = ch.choice(["auto", "fused", "blockwise"], "start")
    sr.set_default_tensordot_mode(start)
    try:
        require(sr.get_default_tensordot_mode() == start, "context:set", "")
        sr.set_default_tensordot_mode(None)
        require(sr.get_default_tensordot_mode() == start,
                "context:none-is-not-noop",
                f"{sr.get_default_tensordot_mode()!r}")
        pair = ch.draw(gen.contraction_pairs(min_con=1), "pair")
        a, b = gen.build(pair["a"]), gen.build(pair["b"])
        axes = (pair["axes_a"], pair["axes_b"])
        ref = must(sr.tensordot, a, b, axes, mode="blockwise",
                   preserve_array=True, what="tensordot")
        depth = ch.integer(1, 3, "depth")
        modes = [ch.choice(["auto", "fused", "blockwise"], f"m{d}")
                 for d in range(depth)]
        how = ch.choice(["normal", "exception", "generator", "bad-mode",
                         "decorator", "decorator-exception"], "exit")

        def nested(d):
            if d == depth:
                r = sr.tensordot(a, b, axes, mode=None, preserve_array=True)
                same_array(r, ref, "context:result-differs", exact=True)
                if how == "exception":
                    raise KeyError("boom")
                if how == "bad-mode":
                    with sr.default_tensordot_mode("no-such-mode"):
                        sr.tensordot(a, b, axes, mode=None)
                return
            with sr.default_tensordot_mode(modes[d]):
                require(sr.get_default_tensordot_mode() == modes[d],
                        "context:not-set-inside", "")
                nested(d + 1)
            want = modes[d - 1] if d else start
            require(sr.get_default_tensordot_mode() == want,
                    "context:not-restored-at-level",
                    f"level {d}: {sr.get_default_tensordot_mode()!r} != {want!r}")

        if how.startswith("decorator"):
            # the manager used as a decorator on (mutually) recursive
            # functions: every call enters and leaves the temporary mode
            deco = sr.default_tensordot_mode(modes[0])
            boom = how == "decorator-exception"

            @deco
            def f(n):
                require(sr.get_default_tensordot_mode() == modes[0],
                        "context:not-set-inside-decorated", "")
                if n:
                    return g2(n - 1)
                if boom:
                    raise KeyError("boom")
                r = sr.tensordot(a, b, axes, mode=None, preserve_array=True)
                same_array(r, ref, "context:result-differs", exact=True)

            @deco
            def g2(n):
                return f(n)

            try:
                f(depth)
            except KeyError:
                require(boom, "context:unexpected", "")
        elif how == "generator":
            def g():
                with sr.default_tensordot_mode(modes[0]):
                    yield 1
                    yield 2
            it = g()
            next(it)
            it.close()
        else:
            try:
                nested(0)
            except KeyError:
                require(how == "exception", "context:unexpected", "")
            except ValueError:
                require(how == "bad-mode", "context:unexpected", "")
        require(sr.get_default_tensordot_mode() == start,
                "context:not-restored",
                f"after {how} exit: {sr.get_default_tensordot_mode()!r} != "
                f"{start!r}")
        ch.label(f"exit={how}")
        ch.mark_nontrivial(how != "normal" or depth >= 2)
    finally:
        sr.set_default_tensordot_mode("auto")


# ------------------------------------------------------------- schedules ----

HOT = ("cached_fuse_block_info", "hashkey", "calc_fuse_block_info",
       "calc_fuse_group_info", "hasher", "_fuse_core", "phase_sync",
       "unfuse", "_binary_blockwise_op")


def thread_ops(ch, x, y, nd, tag):
    """a short list of out-of-place operations on the shared operands"""
    n = ch.integer(1, 2, tag + ".n")
    out = []
    for k in range(n):
        a = draw_history_op(ch, nd, f"{tag}.{k}")
        if a["op"] == "reshape":
            a = {"op": "fuse", "groups": [list(range(nd))]}
        out.append(a)
    return out


def law_schedule(ch):
    import symmray as sr
    import symmray.abelian_core as ac

    ferm = ch.boolean("ferm")
    spec = ch.draw(gen.array_specs(ferm=ferm, min_ndim=2, max_ndim=3,
                                   max_size=2, allow_empty=False, dyn=True,
                                   dtype="float64"), "x")
    x = gen.build(spec)
    if not x.blocks:
        return
    nd = x.ndim
    nth = ch.integer(2, 4, "nthreads")
    if ch.boolean("shared-fused-lazy", p=0.3):
        # the shared operand is a fused array that still carries lazy signs;
        # the threads unfuse it / add to it out of place
        grp = list(ch.perm(nd, "fgroup"))[:ch.integer(2, nd, "fk")]
        x = must(lambda: x.fuse(tuple(grp)).conj(), what="fuse.conj")
        ax = [i for i, ix in enumerate(x.indices) if ix.subinfo is not None]
        if not ax:
            return
        progs = [[{"op": "unfuse", "axis": ax[0]}] +
                 ([{"op": "self-add"}] if ch.boolean(f"t{i}.add") else [])
                 for i in range(nth)]
        nd = x.ndim
    else:
        progs = [thread_ops(ch, x, None, nd, f"t{i}") for i in range(nth)]
        if ch.boolean("same-op", p=0.5):
            progs = [progs[0] for _ in range(nth)]
    # sequential reference, history-free (the operand's snapshot is taken
    # first: also the reference run must leave it alone)
    snap = snapshot(x)
    with no_caches():
        seq = [[attempt(apply_history_op, x, a) for a in p] for p in progs]
    require(snapshot(x) == snap, "schedule:operand-modified-sequentially",
            lambda: snapshot_diff(snap, snapshot(x)))
    prefix = os.path.join(repo_root(), "symmray") + os.sep
    maxsize = ch.choice([1, 2, 8192, 0], "maxsize")
    reset_cache()
    set_cache(maxsize=maxsize)
    try:
        # solo recording run to learn the step count and hot steps
        rec = Scheduler(nth, {}, prefix, record=True, hot_functions=HOT)
        fns = [(lambda p=p: [attempt(apply_history_op, x, a) for a in p])
               for p in progs]
        rec.run(fns)
        total = max(rec.step_no, 1)
        hot = rec.hot_steps or [1]
        reset_cache()
        set_cache(maxsize=maxsize)
        nsw = ch.integer(1, 12, "nswitch")
        switches = {}
        for k in range(nsw):
            if ch.boolean(f"sw{k}.hot", p=0.7):
                stp = hot[ch.integer(0, 9999, f"sw{k}.pos") * len(hot) // 10000]
            else:
                stp = 1 + ch.integer(0, 9999, f"sw{k}.pos") * total // 10000
            switches[stp] = ch.integer(0, nth - 1, f"sw{k}.to")
        sch = Scheduler(nth, switches, prefix, hot_functions=HOT)
        res, errs, steps, hung = sch.run(fns)
        if hung:
            raise HarnessError("scheduler: thread did not finish")
        for tid, e in enumerate(errs):
            if e is not None:
                raise Discrepancy(
                    f"schedule:thread-raised:{type(e).__name__}",
                    f"thread {tid}: {e!r} with switches {sch.switch_log}")
        for tid, (got, want) in enumerate(zip(res, seq)):
            for k, ((ok, r), (ok0, r0)) in enumerate(zip(got, want)):
                what = (f"thread {tid} op {progs[tid][k]} switches "
                        f"{sch.switch_log[:6]}")
                if ok != ok0:
                    raise Discrepancy(
                        "schedule:raises-differently",
                        f"{what}: threaded ok={ok} ({r if not ok else ''}), "
                        f"sequential ok={ok0}")
                if ok:
                    results_equal(r, r0, "schedule:result-differs", what)
        now = snapshot(x)
        require(now == snap, "schedule:operand-modified",
                lambda: snapshot_diff(snap, now))
        ch.count("switches", len(sch.switch_log))
        ch.count("switches-in-hot-code", sch.in_hot_at_switch)
        ch.count("forced-switches-on-blocked-thread", sch.forced)
        ch.label(f"threads={nth}")
        ch.label(f"maxsize={maxsize}")
        ch.mark_nontrivial(sch.in_hot_at_switch >= 1)
    finally:
        reset_cache()


def law_stress(ch):
    """free-running threads (no scheduler, switch interval 1 us) repeating
    out-of-place operations on shared operands; verdict = equality with the
    sequential results, so it cannot be flaky on race-free code"""
    import threading

    ferm = ch.boolean("ferm")
    spec = ch.draw(gen.array_specs(ferm=ferm, min_ndim=3, max_ndim=4,
                                   max_size=3, allow_empty=False, dyn=True,
                                   dtype="float64"), "x")
    x = gen.build(spec)
    if not x.blocks:
        return
    nd = x.ndim
    nth = ch.integer(2, 6, "nthreads")
    progs = [thread_ops(ch, x, None, nd, f"t{i}") for i in range(nth)]
    if ch.boolean("same-op", p=0.6):
        progs = [progs[0] for _ in range(nth)]
    reps = ch.integer(2, 6, "reps")
    snap = snapshot(x)
    with no_caches():
        seq = [[attempt(apply_history_op, x, a) for a in p] for p in progs]
    maxsize = ch.choice([1, 2, 8192], "maxsize")
    reset_cache()
    set_cache(maxsize=maxsize)
    old = sys.getswitchinterval()
    sys.setswitchinterval(1e-6)
    results = [[None] * reps for _ in range(nth)]
    errors = []
    barrier = threading.Barrier(nth)

    def work(i):
        try:
            barrier.wait(timeout=60)
            for r in range(reps):
                results[i][r] = [attempt(apply_history_op, x, a)
                                 for a in progs[i]]
        except BaseException as e:  # noqa
            errors.append((i, e))

    try:
        ths = [threading.Thread(target=work, args=(i,), daemon=True)
               for i in range(nth)]
        for t in ths:
            t.start()
        for t in ths:
            t.join(timeout=120)
        if any(t.is_alive() for t in ths):
            raise HarnessError("stress: thread did not finish")
    finally:
        sys.setswitchinterval(old)
        reset_cache()
    for i, e in errors:
        raise Discrepancy(f"stress:thread-raised:{type(e).__name__}",
                          f"thread {i}: {e!r}")
    for i in range(nth):
        for r in range(reps):
            for k, ((ok, got), (ok0, want)) in enumerate(
                    zip(results[i][r], seq[i])):
                what = f"thread {i} repetition {r} op {progs[i][k]}"
                if ok != ok0:
                    raise Discrepancy("stress:raises-differently",
                                      f"{what}: {got if not ok else want}")
                if ok:
                    results_equal(got, want, "stress:result-differs", what)
    require(snapshot(x) == snap, "stress:operand-modified",
            lambda: snapshot_diff(snap, snapshot(x)))
    ch.label(f"threads={nth}")
    ch.mark_nontrivial(nth >= 3)



# ------------------------------------------------------------ environment ---

ENV_SCRIPT = r"""
import hashlib, numpy as np, symmray as sr
h = hashlib.sha256()
def feed(x):
    for s in sorted(x.blocks):
        h.update(repr(s).encode()); h.update(np.ascontiguousarray(x.blocks[s]).tobytes())
    for ix in x.indices:
        h.update(repr((sorted(ix.chargemap.items()), ix.dual, ix.subinfo is not None)).encode())
for symm in ("Z2", "U1"):
    for seed in range(4):
        x = sr.utils.get_rand(symm, (3, 4, 3, 2), seed=seed, fermionic=bool(seed % 2))
        for s in list(x.blocks)[::3]:
            del x.blocks[s]
        y = x.conj()
        for t in (x, y, x.transpose((1, 0, 3, 2))):
            f = t.fuse((0, 2), (1, 3)); feed(f); feed(f.unfuse_all())
            feed(t.reshape((12, 6)).reshape(t.shape))
        feed(sr.tensordot(x, y, [(0, 2, 1), (0, 2, 1)], mode="fused"))
print(h.hexdigest())
"""


def env_cases(tier):
    vals = [None, "0", "1", "x", "7"]
    for a in vals:
        for b in ([None, "0", "1", "x"] if tier != "quick" else [None, "1"]):
            yield {"maxsize": a, "maxsectors": b}


_ENV_REF = {}


def run_env(case):
    env = {k: v for k, v in os.environ.items()
           if not k.startswith("SYMMRAY_")}
    if case["maxsize"] is not None:
        env["SYMMRAY_FUSE_CACHE_MAXSIZE"] = case["maxsize"]
    if case["maxsectors"] is not None:
        env["SYMMRAY_FUSE_CACHE_MAXSECTORS"] = case["maxsectors"]
    r = subprocess.run([sys.executable, "-c", ENV_SCRIPT], env=env,
                       capture_output=True, text=True, timeout=300)
    return r.returncode, r.stdout.strip().split("\n")[-1], r.stderr[-500:]


def law_environment(ch):
    case = ch.draw(None, "case")
    if "ref" not in _ENV_REF:
        _ENV_REF["ref"] = run_env({"maxsize": None, "maxsectors": None})
    rc0, ref, err0 = _ENV_REF["ref"]
    if rc0 != 0:
        raise HarnessError(f"environment reference run failed: {err0}")
    rc, out, err = run_env(case)
    require(rc == 0, "environment:crashes",
            lambda: f"{case}: exit {rc}: {err}")
    require(out == ref, "environment:result-differs",
            lambda: f"{case}: digest {out[:16]} vs default {ref[:16]}")
    ch.mark_nontrivial(case["maxsize"] is not None
                       or case["maxsectors"] is not None)


LAWS = [
    Law("history", law_history, quick=1600, thorough=30000,
        doc="families of near-identical arrays through fuse / reshape / "
            "fused contraction / svd with cache controls == cache-bypassed "
            "computation"),
    Law("context", law_context, quick=400, thorough=4000,
        doc="default_tensordot_mode restores the default on every exit path"),
    Law("schedule", law_schedule, quick=480, thorough=12000,
        doc="deterministically scheduled threads on shared operands == "
            "sequential results"),
    Law("stress", law_stress, quick=16, thorough=800,
        doc="free-running threads (switch interval 1 us) repeating "
            "operations on shared operands == sequential results"),
    Law("environment", law_environment, kind="enum", cases=env_cases,
        max_shards=8,
        doc="cache environment variables (incl. invalid values) do not "
            "change results"),
]

"""C12 — spectra and solutions equal those of the dense matrix."""

import numpy as np

from .. import gen
from ..compare import dense_equal, scalar_equal
from ..core import Discrepancy, Law, must, require
from ..model import dense as D
from ..model import groups as G
from .c11 import ALLSYMS, build_matrix, matrix_cases

PROPERTY_ID = "C12"
RULE = (
    "Matrices as in C11 (direct or fused from rank 3-4 arrays; tall / wide / "
    "square / 1x1 / exactly rank-deficient blocks; missing blocks; real and "
    "complex; abelian incl. Z4 for eigenvalues and solve, fermionic too for "
    "singular values and norm; mixed-dtype blocks for the norm). Oracle: "
    "numpy.linalg.svd / eigvalsh / norm / solve on the harness' own "
    "densification. Singular values compared as sorted multisets of the "
    "non-zero values (threshold 1e-10 * sigma_max); eigenvalues per stored "
    "charge against the dense diagonal sub-block; solutions against the "
    "dense solution of well-conditioned systems. Non-trivial: >=2 blocks of "
    "different shapes, or a missing block, or complex data."
)
ASSUMPTIONS = [
    "tolerance 64*eps*K*scale; singular values below 1e-10*sigma_max count "
    "as zero on both sides",
]


def nz_sorted(v, smax):
    v = np.sort(np.asarray(v, dtype=float))[::-1]
    return v[v > 1e-10 * max(smax, 1e-300)]


def law_singular_values(ch):
    import symmray as sr

    mc = ch.draw(matrix_cases(), "m")
    x, spec = build_matrix(mc)
    if x is None or not x.blocks:
        return
    dx = D.dense_of(x)
    want = np.linalg.svd(dx, compute_uv=False)
    smax = float(want.max()) if want.size else 0.0
    _, s, _ = must(sr.linalg.svd, x, what="svd")
    got = np.concatenate([np.asarray(b) for b in s.blocks.values()]) \
        if s.blocks else np.zeros(0)
    g, w = nz_sorted(got, smax), nz_sorted(want, smax)
    require(len(g) == len(w), "singular-values:count",
            lambda: f"{len(g)} non-zero values, dense has {len(w)}: "
                    f"{g} vs {w}")
    dense_equal(g, w, "singular-values:value", exact=False,
                what="sorted singular values", K=max(dx.shape), scale=smax)
    # Frobenius norm
    n = must(x.norm, what="norm")
    scalar_equal(n, np.linalg.norm(dx.ravel()), "norm:value", exact=False,
                 K=dx.size, scale=float(np.abs(dx).max() or 1), what="norm")
    n2 = must(sr.linalg.norm, x, what="linalg.norm")
    scalar_equal(n2, n, "norm:function-vs-method", exact=True)
    shapes = {np.asarray(b).shape for b in x.blocks.values()}
    for l in gen.spec_summary(spec):
        ch.label(l)
    ch.mark_nontrivial(len(shapes) >= 2 or gen.is_sparse(spec)
                       or "complex" in spec["dtype"])


def law_norm_mixed(ch):
    """norm of arrays / vectors whose blocks differ in dtype"""
    import symmray as sr

    spec = ch.draw(gen.array_specs(syms=ALLSYMS, dtype="mixed",
                                   allow_empty=False, min_ndim=1), "x")
    x = gen.build(spec)
    if not x.blocks:
        return
    dx = D.dense_of(x)
    n = must(x.norm, what="norm")
    require(abs(complex(n).imag) == 0, "norm:complex-valued", f"{n!r}")
    # the precision of the result is that of the least precise block
    eps = max(float(np.finfo(np.asarray(b).dtype).eps)
              for b in x.blocks.values())
    scalar_equal(n, np.linalg.norm(dx.ravel()), "norm:value", exact=False,
                 K=dx.size, scale=float(np.abs(dx).max() or 1), eps=eps)
    v = sr.BlockVector({k: np.asarray(b).ravel()
                        for k, b in enumerate(x.blocks.values())})
    nv = must(v.norm, what="vector norm")
    scalar_equal(nv, np.linalg.norm(dx.ravel()), "norm:vector-value",
                 exact=False, K=dx.size, scale=float(np.abs(dx).max() or 1),
                 eps=eps)
    kinds = {np.asarray(b).dtype.kind for b in x.blocks.values()}
    ch.mark_nontrivial(len(kinds) >= 2)


def law_eigenvalues(ch):
    import symmray as sr

    spec = ch.draw(gen.matrix_specs(ferm=False, hermitian=True, syms=ALLSYMS),
                   "m")
    x = gen.build(spec)
    if not x.blocks:
        return
    el, ev = must(sr.linalg.eigh, x, what="eigh")
    dx = D.dense_of(x)
    offs, _ = D.offsets(spec["idxs"][0]["cm"])
    require(set(el.blocks) == {s[1] for s in x.blocks}, "eigenvalues:charges",
            lambda: f"{sorted(el.blocks)} vs stored {sorted(x.blocks)}")
    for c, vals in el.blocks.items():
        st, d = offs[c]
        sub = dx[st:st + d, st:st + d]
        want = np.linalg.eigvalsh(sub)
        dense_equal(np.sort(np.asarray(vals)), np.sort(want),
                    "eigenvalues:value", exact=False, what=f"charge {c!r}",
                    K=d, scale=float(np.abs(sub).max() or 1))
    for l in gen.spec_summary(spec):
        ch.label(l)
    ch.mark_nontrivial(len(x.blocks) >= 2 or gen.is_sparse(spec))


def law_solve(ch):
    import symmray as sr

    spec = ch.draw(gen.matrix_specs(ferm=False, square=True, syms=ALLSYMS),
                   "a")
    a = gen.build(spec)
    symm = spec["symm"]
    ix0, ix1 = spec["idxs"]
    c_b = ch.choice(sorted(ix0["cm"]), "b-sector")
    qb = G.signed(symm, c_b, ix0["dual"])
    bspec = ch.draw(gen.array_specs(
        symm=symm, ferm=False, idxs=[ix0], charge=qb, dyn=spec["dyn"],
        dtype=spec["dtype"], data="gauss"), "b")
    b = gen.build(bspec)
    if not b.blocks or not a.blocks:
        return
    x = must(sr.linalg.solve, a, b, what="solve")
    da, db = D.dense_of(a), D.dense_of(b)
    want = np.linalg.solve(da, db)
    got = D.dense_of(x, ref=[dict(ix1["cm"])])
    dense_equal(got, want, "solve:value", exact=False, what="solution",
                K=da.shape[0] * 8, scale=float(np.abs(want).max() or 1))
    for l in gen.spec_summary(spec):
        ch.label(l)
    ch.label(f"a-charge-zero={spec['charge'] == G.identity(symm)}")
    ch.mark_nontrivial(len(a.blocks) >= 2 or "complex" in spec["dtype"]
                       or spec["charge"] != G.identity(symm))


LAWS = [
    Law("singular_values", law_singular_values, quick=2000, thorough=30000,
        doc="singular values (multiset) and Frobenius norm == dense"),
    Law("norm_mixed", law_norm_mixed, quick=600, thorough=6000,
        doc="norm of arrays/vectors with blocks of mixed dtype == dense"),
    Law("eigenvalues", law_eigenvalues, quick=1000, thorough=14000,
        doc="eigenvalues per charge == eigvalsh of the dense diagonal block"),
    Law("solve", law_solve, quick=1000, thorough=14000,
        doc="solve == numpy.linalg.solve on the dense system"),
]

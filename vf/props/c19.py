"""C19 — edge-wise Hamiltonians add up to the lattice Hamiltonian, each term
once."""

import collections
import itertools
import warnings

import numpy as np

from ..core import Discrepancy, Law, must, require
from ..model.fock import Fock
from .c18 import SPINFUL_MAPS, orig_order_dense

PROPERTY_ID = "C19"
RULE = (
    "Simple graphs: every graph (non-empty edge set) on 2-4 labelled sites "
    "exhaustively, drawn graphs on 5-6 sites (spinless) / up to 4 (spinful); "
    "site labels ints, tuples or strings; edges listed in either orientation "
    "and drawn order; t / V scalar, dict (either orientation) or callable; "
    "U / mu scalar, dict or callable, site dependent; symmetries Z2,U1 "
    "(spinless) and Z2,U1,Z2Z2,U1U1 (spinful). Oracle: the full lattice "
    "Hamiltonian built from its definition with Jordan-Wigner matrices on the "
    "Fock space of all lattice modes; each returned two-site array is lifted "
    "to that space through the documented element convention and the lifted "
    "terms are summed. Also: returned keys == the edges as given; "
    "parse_edges_to_site_info gives each bond one name shared by exactly its "
    "two ends with opposite directions and coordination == degree. "
    "Non-trivial: a graph with >=2 different degrees and a non-zero on-site "
    "coefficient."
)
ASSUMPTIONS = [
    "element convention of C18 for lifting a two-site array to Fock space",
    "spinful lattices limited to 4 sites (256-dimensional Fock space)",
]


def all_graphs(n):
    pairs = list(itertools.combinations(range(n), 2))
    for k in range(1, len(pairs) + 1):
        for es in itertools.combinations(pairs, k):
            if {v for e in es for v in e} == set(range(n)):
                yield [list(e) for e in es]


def exhaustive_cases(tier):
    for n in (2, 3, 4):
        for g in all_graphs(n):
            for spinful in (False, True):
                if tier == "quick" and spinful and n == 4 and len(g) > 3:
                    continue
                yield {"n": n, "edges": g, "spinful": spinful}


def site_labels(kind, n):
    if kind == 0:
        return list(range(n))
    if kind == 1:
        return [(i // 2, i % 2) for i in range(n)]
    return [f"s{i}" for i in range(n)]


def check_graph(ch, n, graph, spinful, exhaustive):
    import symmray as sr

    warnings.simplefilter("ignore")
    kind = ch.integer(0, 2, "labels")
    sites = site_labels(kind, n)
    order = list(ch.perm(len(graph), "edge-order")) if len(graph) <= 5 else \
        list(range(len(graph)))
    edges = []
    for i in order:
        a, b = graph[i]
        if ch.boolean(f"flip{i}"):
            a, b = b, a
        edges.append((sites[a], sites[b]))
    symm = ch.choice(["Z2", "U1", "Z2Z2", "U1U1"] if spinful
                     else ["Z2", "U1"], "symm")
    used = sorted({s for e in edges for s in e}, key=str)
    # coefficients as Python floats or ints (also exactly 0: a bond without
    # hopping still carries its share of the on-site terms)
    as_int = ch.boolean("int-typed", p=0.35)
    cast = (lambda v: int(v)) if as_int else float
    val = lambda tag: cast(ch.choice([-3, -2, -1, 1, 2, 3, 4, 8], tag))
    tval = lambda tag: cast(ch.choice([-3, -1, 0, 0, 1, 2, 3], tag))
    form = ch.choice(["dict", "callable", "scalar"], "form")
    if form == "scalar":
        tv, uv, mv, vv = tval("t"), val("U"), cast(ch.choice(
            [0, 0, 1, -2, 3], "mu")), tval("V")
        tvals = {e: tv for e in edges}
        uvals = {s: uv for s in used}
        muvals = {s: mv for s in used}
        vvals = {e: vv for e in edges}
        t_arg, U_arg, mu_arg, V_arg = tv, uv, mv, vv
    else:
        vary = ch.choice(["all", "all", "one-mu", "one-U", "one-t", "one-V"],
                         "vary")
        if vary == "all":
            tvals = {e: tval(f"t{k}") for k, e in enumerate(edges)}
            vvals = {e: tval(f"V{k}") for k, e in enumerate(edges)}
            uvals = {s: val(f"U{k}") for k, s in enumerate(used)}
            muvals = {s: cast(ch.choice([-2, 0, 0, 1, 3], f"mu{k}"))
                      for k, s in enumerate(used)}
        else:
            # a regular lattice with a single impurity: every coefficient is
            # the same everywhere except one site's mu / U or one bond's t / V
            # (bonds that agree in all but one parameter)
            tb, vb, ub = tval("t"), tval("V"), val("U")
            mb = cast(ch.choice([-2, 0, 1, 3], "mu"))
            tvals = {e: tb for e in edges}
            vvals = {e: vb for e in edges}
            uvals = {s: ub for s in used}
            muvals = {s: mb for s in used}
            if vary in ("one-mu", "one-U"):
                s1 = ch.choice(used, "impurity-site")
                if vary == "one-mu":
                    muvals[s1] = mb + cast(ch.choice([-3, 1, 2], "dmu"))
                else:
                    uvals[s1] = ub + cast(ch.choice([-5, 1, 2], "dU"))
            else:
                e1 = ch.choice(edges, "impurity-bond")
                if vary == "one-t":
                    tvals[e1] = tb + cast(ch.choice([-2, 1, 5], "dt"))
                else:
                    vvals[e1] = vb + cast(ch.choice([-2, 1, 5], "dV"))
        ch.label(f"vary={vary}")
        if form == "dict":
            t_arg = {(e if ch.boolean(f"tk{k}") else e[::-1]): v
                     for k, (e, v) in enumerate(tvals.items())}
            V_arg = {(e if ch.boolean(f"vk{k}") else e[::-1]): v
                     for k, (e, v) in enumerate(vvals.items())}
            U_arg, mu_arg = dict(uvals), dict(muvals)
        else:
            t_arg = lambda a, b: tvals.get((a, b), tvals.get((b, a)))
            V_arg = lambda a, b: vvals.get((a, b), vvals.get((b, a)))
            U_arg = lambda s: uvals[s]
            mu_arg = lambda s: muvals[s]
    if spinful:
        terms = must(sr.ham_fermi_hubbard_from_edges, symm, edges, t=t_arg,
                     U=U_arg, mu=mu_arg, what="ham_fermi_hubbard_from_edges")
        modes = [(s, sp) for s in used for sp in "ud"]
    else:
        terms = must(sr.ham_fermi_hubbard_spinless_from_edges, symm, edges,
                     t=t_arg, V=V_arg, mu=mu_arg,
                     what="ham_fermi_hubbard_spinless_from_edges")
        modes = [(s, "") for s in used]
    require(list(terms.keys()) == edges or set(terms.keys()) == set(edges),
            "keys", lambda: f"{list(terms)} vs edges {edges}")
    require(len(terms) == len(edges), "keys:count", "")
    mo = list(ch.perm(len(modes), "jw-order")) if len(modes) <= 5 else \
        list(range(len(modes)))
    F = Fock([modes[i] for i in mo])
    c = lambda s, sp, dag: F.op((s, sp), dag)
    dim = F.dim
    Hfull = np.zeros((dim, dim))
    if spinful:
        for (a, b) in edges:
            for sp in "ud":
                Hfull += -tvals[(a, b)] * (c(a, sp, 1) @ c(b, sp, 0)
                                           + c(b, sp, 1) @ c(a, sp, 0))
        for s in used:
            nu = c(s, "u", 1) @ c(s, "u", 0)
            nd_ = c(s, "d", 1) @ c(s, "d", 0)
            Hfull += uvals[s] * nu @ nd_ - muvals[s] * (nu + nd_)

        def basis_ops(s):
            return [(), ((s, "d"),), ((s, "u"),), ((s, "u"), (s, "d"))]

        maps = SPINFUL_MAPS[symm]
    else:
        for (a, b) in edges:
            Hfull += (-tvals[(a, b)] * (c(a, "", 1) @ c(b, "", 0)
                                        + c(b, "", 1) @ c(a, "", 0))
                      + vvals[(a, b)] * (c(a, "", 1) @ c(a, "", 0)
                                         @ c(b, "", 1) @ c(b, "", 0)))
        for s in used:
            Hfull += -muvals[s] * c(s, "", 1) @ c(s, "", 0)

        def basis_ops(s):
            return [(), ((s, ""),)]

        maps = [0, 1]
    Hsum = np.zeros((dim, dim))
    for (a, b), Gx in terms.items():
        Gd = orig_order_dense(Gx, [maps] * 4)
        ba, bb = basis_ops(a), basis_ops(b)
        P0 = np.eye(dim)
        for m in [m for m in modes if m[0] in (a, b)]:
            P0 = P0 @ (np.eye(dim) - F.op(m, 1) @ F.op(m, 0))
        for i2, j2, i, j in itertools.product(range(len(ba)), range(len(bb)),
                                              range(len(ba)), range(len(bb))):
            g = Gd[i2, j2, i, j]
            if g == 0:
                continue
            ket = F.string([(m, True) for m in ba[i2]]
                           + [(m, True) for m in bb[j2]])
            bra = F.string([(m, True) for m in ba[i]]
                           + [(m, True) for m in bb[j]]).T
            sgn = -1 if (len(ba[i2]) % 2 and len(bb[j2]) % 2) else 1
            Hsum += sgn * g * ket @ P0 @ bra
    if not np.allclose(Hsum, Hfull, atol=1e-9):
        diff = np.abs(Hsum - Hfull)
        pos = np.unravel_index(int(diff.argmax()), diff.shape)
        diag = bool(np.allclose(Hsum - np.diag(np.diag(Hsum)),
                                Hfull - np.diag(np.diag(Hfull)), atol=1e-9))
        raise Discrepancy(
            "sum:onsite" if diag else "sum:hopping-or-interaction",
            f"sum of edge terms != lattice Hamiltonian (max diff "
            f"{diff.max():.3g} at {pos}); spinful={spinful} symm={symm} "
            f"edges={edges} form={form}")
    # site info
    si = must(sr.parse_edges_to_site_info, edges, bond_dim=3, phys_dim=2,
              what="parse_edges_to_site_info")
    deg = collections.Counter(s for e in edges for s in e)
    require(set(si) == set(deg), "siteinfo:sites", f"{sorted(si, key=str)}")
    bondnames = collections.defaultdict(list)
    for s, info in si.items():
        require(all(k in info for k in ("coordination", "inds", "duals",
                                        "shape")),
                "siteinfo:fields", lambda: f"site {s!r}: {sorted(info)}")
        require(info["coordination"] == deg[s], "siteinfo:coordination",
                lambda: f"site {s!r}: {info['coordination']} vs degree "
                        f"{deg[s]}")
        require(len(info["inds"]) == len(info["duals"]) == len(info["shape"]),
                "siteinfo:lengths", f"site {s!r}")
        for nm, du in list(zip(info["inds"], info["duals"]))[:deg[s]]:
            bondnames[nm].append((s, du))
    require(len(bondnames) == len(edges), "siteinfo:bond-count",
            lambda: f"{len(bondnames)} bond names for {len(edges)} edges")
    ends_seen = set()
    for nm, ends in bondnames.items():
        require(len(ends) == 2 and {ends[0][1], ends[1][1]} == {0, 1},
                "siteinfo:bond-ends",
                lambda: f"bond {nm!r}: {ends}")
        pair = frozenset(e[0] for e in ends)
        require(len(pair) == 2 and pair in {frozenset(e) for e in edges},
                "siteinfo:bond-not-an-edge", lambda: f"{nm!r}: {ends}")
        ends_seen.add(pair)
    require(len(ends_seen) == len(edges), "siteinfo:bond-per-edge", "")
    degs = set(deg.values())
    onsite = any(v != 0 for v in muvals.values()) or (
        spinful and any(v != 0 for v in uvals.values()))
    ch.label(f"sites={n}")
    ch.label("spinful" if spinful else "spinless")
    ch.label(f"form={form}")
    ch.label(f"symm={symm}")
    ch.mark_nontrivial(len(degs) >= 2 and onsite)


def law_exhaustive(ch):
    case = ch.draw(None, "case")
    # the per-graph options (labels, orientation, coefficient form, symmetry)
    # are derived deterministically from the case through a fixed chooser
    from ..core import ReplayChooser
    import hashlib

    class Det:
        """chooser deriving every choice from a hash of (case, label)"""
        def __init__(self, key):
            self.key = key
            self.labels = []
            self.nontrivial = False
            self.counters = {}

        def _h(self, label, n):
            h = hashlib.sha256(f"{self.key}/{label}".encode()).digest()
            return int.from_bytes(h[:4], "big") % n

        def integer(self, lo, hi, label="i"):
            return lo + self._h(label, hi - lo + 1)

        def boolean(self, label="b", p=None):
            return bool(self._h(label, 2))

        def choice(self, seq, label="c"):
            seq = list(seq)
            return seq[self._h(label, len(seq))]

        def perm(self, n, label="p"):
            allp = list(itertools.permutations(range(n)))
            return allp[self._h(label, len(allp))]

        def label(self, t):
            self.labels.append(t)

        def mark_nontrivial(self, f=True):
            self.nontrivial = self.nontrivial or bool(f)

        def count(self, k, n=1):
            pass

    for variant in range(3):
        d = Det(f"{case}/{variant}")
        check_graph(d, case["n"], case["edges"], case["spinful"], True)
        for l in d.labels:
            ch.label(l)
        ch.mark_nontrivial(d.nontrivial)
    ch.count("inner", 3)


def law_random(ch):
    spinful = ch.boolean("spinful")
    n = ch.integer(2, 4 if spinful else 6, "n")
    pairs = list(itertools.combinations(range(n), 2))
    from hypothesis import strategies as st

    sel = ch.draw(st.lists(st.sampled_from(pairs), unique=True, min_size=1,
                           max_size=min(len(pairs), 7)), "edges")
    sel = [tuple(e) for e in sel]
    used = sorted({v for e in sel for v in e})
    relabel = {v: i for i, v in enumerate(used)}
    graph = [[relabel[a], relabel[b]] for a, b in sel]
    check_graph(ch, len(used), graph, spinful, False)


LAWS = [
    Law("exhaustive", law_exhaustive, kind="enum", cases=exhaustive_cases,
        doc="every graph on 2-4 sites, spinless and spinful, three derived "
            "option variants each: sum of lifted edge terms == lattice "
            "Hamiltonian; site info"),
    Law("random", law_random, quick=320, thorough=6000,
        doc="drawn graphs on up to 6 (spinless) / 4 (spinful) sites with "
            "drawn labels, orientations, coefficient forms"),
]

"""C17 — charges form an abelian group with parity; sector enumeration is
exact.  Exhaustive enumeration against the independent model in
vf.model.groups."""

import itertools

import numpy as np

from ..core import attempt, Discrepancy, Law, must, require
from ..model import groups as G

PROPERTY_ID = "C17"
LEVEL = "exploration"  # exhaustive laws + one generated law
RULE = (
    "Exhaustive enumeration. Axioms: every charge / pair / triple / quadruple "
    "of the stated domain (Z2, Z4, Z2Z2 complete; U1 on [-6,6]; U1U1 on "
    "[-6,6]^2, triples on [-3,3]^2); a case is non-trivial if it involves a "
    "non-identity element. Sector enumeration: every array structure with "
    "<=3 legs (4 legs with <=2 charges per leg), every dualness pattern, "
    "every total charge of a small set, every non-empty subset of a small "
    "charge set per leg, static/dynamic/fermionic classes; non-trivial if "
    ">=1 dual leg and >=2 charges on the last leg. One 'case' groups an inner "
    "loop; inner evaluations are counted in counters.inner."
)
ASSUMPTIONS = [
    "group arithmetic of the model (vf/model/groups.py) is the definition of "
    "Z2, Z4, U1, Z2Z2, U1U1 on ints / pairs of ints",
    "single-fermion charges 1, (0,1), (1,0) are odd (documented charge maps "
    "of the spinless/spinful local operators)",
]


def _sym(name):
    import symmray as sr

    return sr.get_symmetry(name)


def _domain(s, tier, small=False):
    if s in ("Z2", "Z4", "Z2Z2"):
        return list(G.POOLS[s])
    r = 3 if small else 6
    if s == "U1":
        return list(range(-r, r + 1))
    return [(a, b) for a in range(-r, r + 1) for b in range(-r, r + 1)]


# ------------------------------------------------------------------ axioms --


def axiom_cases(tier):
    for s in G.SYMS:
        yield {"symm": s, "kind": "unary"}
        for a in _domain(s, tier):
            yield {"symm": s, "kind": "binary", "a": a}
        for a in _domain(s, tier, small=True):
            yield {"symm": s, "kind": "ternary", "a": a}
        yield {"symm": s, "kind": "nary"}


def law_axioms(ch):
    case = ch.draw(None, "case")
    s = case["symm"]
    sym = _sym(s)
    e = G.identity(s)
    kind = case["kind"]
    n = 0
    if kind == "unary":
        ident = must(sym.combine)
        require(ident == e, "identity", f"{s}: combine() = {ident!r}")
        require(sym.valid(ident), "identity-invalid", f"{s}: {ident!r}")
        require(sym.parity(ident) == 0, "parity-identity", s)
        for c in _domain(s, "t"):
            n += 1
            require(G.valid(s, c), "model", "domain")
            require(sym.valid(c), "valid-rejects", f"{s}: {c!r}")
            nc = must(sym.sign, c)
            require(
                sym.valid(nc) and G.valid(s, nc),
                "sign-invalid",
                f"{s}: sign({c!r}) = {nc!r} is not a valid charge",
            )
            require(
                sym.combine(c, nc) == ident,
                "sign-not-inverse",
                f"{s}: combine({c!r}, sign) = {sym.combine(c, nc)!r}",
            )
            require(nc == G.neg(s, c), "sign-value", f"{s}: sign({c!r})={nc!r}")
            require(sym.sign(c, True) == nc, "sign-default", f"{s} {c!r}")
            require(sym.sign(c, False) == c, "sign-false", f"{s}: {c!r}")
            p = sym.parity(c)
            require(p in (0, 1), "parity-range", f"{s}: parity({c!r})={p!r}")
            require(
                sym.parity(nc) == p, "parity-sign", f"{s}: {c!r} vs {nc!r}"
            )
            require(sym.combine(c) == c, "combine-unary", f"{s}: {c!r}")
            require(
                sym.combine(c, ident) == c and sym.combine(ident, c) == c,
                "identity-neutral",
                f"{s}: {c!r}",
            )
        # the library's own validity predicate rejects labels outside the
        # group (it is what "a valid charge" refers to)
        nonmembers = {"Z2": [2, -1, 3], "Z4": [4, -1, 7],
                      "U1": [0.5, (0, 0)],
                      "Z2Z2": [(0, 2), (2, 0), (-1, 1), (1, 3), 1],
                      "U1U1": [(0.5, 0), (0, 0.5), 3]}[s]
        for c in nonmembers:
            ok, r = attempt(sym.valid, c)
            require(not (ok and r), "valid-accepts-nonmember",
                    f"{s}: valid({c!r}) = {r!r}")
            ok, r = attempt(sym.valid, ident, c)
            require(not (ok and r), "valid-accepts-nonmember",
                    f"{s}: valid({ident!r}, {c!r}) = {r!r}")
        # generators (single-fermion charges) are odd
        gens = {"Z2": [1], "Z4": [1], "U1": [1], "Z2Z2": [(0, 1), (1, 0)],
                "U1U1": [(0, 1), (1, 0)]}[s]
        for g in gens:
            require(sym.parity(g) == 1, "parity-generator", f"{s}: {g!r}")
        ch.mark_nontrivial()
    elif kind == "binary":
        a = case["a"]
        for b in _domain(s, "t"):
            n += 1
            ab = must(sym.combine, a, b)
            require(
                ab == G.combine(s, a, b),
                "combine-value",
                f"{s}: combine({a!r},{b!r}) = {ab!r}",
            )
            require(ab == sym.combine(b, a), "commutative", f"{s} {a!r} {b!r}")
            require(sym.valid(ab), "closure", f"{s}: {a!r}+{b!r}={ab!r}")
            require(
                sym.parity(ab) == (sym.parity(a) + sym.parity(b)) % 2,
                "parity-hom",
                f"{s}: parity({a!r}+{b!r})",
            )
            require(
                sym.sign(ab) == sym.combine(sym.sign(a), sym.sign(b)),
                "sign-hom",
                f"{s}: {a!r} {b!r}",
            )
            require(sym.valid(a, b), "valid-nary", f"{s} {a!r} {b!r}")
        ch.mark_nontrivial(a != e)
    elif kind == "ternary":
        a = case["a"]
        dom = _domain(s, "t", small=True)
        for b in dom:
            for c in dom:
                n += 1
                abc = sym.combine(a, b, c)
                require(
                    abc == sym.combine(sym.combine(a, b), c)
                    == sym.combine(a, sym.combine(b, c)),
                    "associative",
                    f"{s}: {a!r} {b!r} {c!r}",
                )
                require(
                    abc == G.combine(s, a, b, c), "combine-value3",
                    f"{s}: {a!r} {b!r} {c!r} -> {abc!r}",
                )
        ch.mark_nontrivial(a != e)
    else:  # n-ary (4 arguments) on a reduced domain
        dom = _domain(s, "t", small=True)
        if s == "U1U1":
            dom = [(a, b) for a in (-2, 0, 1) for b in (-1, 0, 3)]
        if s == "U1":
            dom = [-3, -1, 0, 2, 5]
        for q in itertools.product(dom, repeat=4):
            n += 1
            r = sym.combine(*q)
            require(
                r == G.combine(s, *q)
                and r == sym.combine(sym.combine(q[0], q[1]),
                                     sym.combine(q[2], q[3])),
                "combine-value4",
                f"{s}: {q!r} -> {r!r}",
            )
        ch.mark_nontrivial()
    ch.count("inner", n)
    ch.label(f"{s}/{kind}")


# --------------------------------------------------------- sector generator --

SECTOR_POOL = {
    "Z2": [0, 1],
    "Z4": [0, 1, 2, 3],
    "U1": [-1, 0, 1],
    "Z2Z2": [(0, 0), (0, 1), (1, 0), (1, 1)],
    "U1U1": [(0, 0), (0, 1), (1, 0), (-1, 1)],
}
SECTOR_CHARGES = {
    "Z2": [0, 1],
    "Z4": [0, 1, 2, 3],
    "U1": [-2, -1, 0, 1, 2],
    "Z2Z2": [(0, 0), (0, 1), (1, 0), (1, 1)],
    "U1U1": [(0, 0), (0, 1), (-1, 0), (1, 1), (-1, 2)],
}


def _subsets(pool, maxlen=None):
    out = []
    for k in range(1, len(pool) + 1):
        if maxlen and k > maxlen:
            break
        out.extend(itertools.combinations(pool, k))
    return out


def _classes(s):
    kinds = ["dyn", "dynf"]
    if s != "Z4":
        kinds += ["static", "staticf"]
    return kinds


def sector_cases(tier):
    for s in G.SYMS:
        big = len(SECTOR_POOL[s]) > 3
        for ndim in (0, 1, 2, 3, 4):
            if tier == "quick" and big and ndim >= 3:
                maxlen = 2
            elif ndim == 4:
                maxlen = 2
            else:
                maxlen = None
            for duals in itertools.product((False, True), repeat=ndim):
                for charge in SECTOR_CHARGES[s]:
                    for kind in _classes(s):
                        # fermionic classes share the enumerator: sample them
                        if kind.endswith("f") and (ndim != 2 and ndim != 3):
                            continue
                        if tier == "quick" and kind.endswith("f"):
                            continue
                        if tier == "quick" and kind == "dyn" and s != "Z4" \
                                and ndim >= 3:
                            continue
                        yield {
                            "symm": s,
                            "ndim": ndim,
                            "duals": list(duals),
                            "charge": charge,
                            "kind": kind,
                            "maxlen": maxlen,
                        }


def _cls(s, kind):
    import symmray as sr

    if kind == "dyn":
        return lambda **kw: sr.AbelianArray(symmetry=s, **kw)
    if kind == "dynf":
        return lambda **kw: sr.FermionicArray(symmetry=s, oddpos=1, **kw)
    static = {
        "Z2": (sr.Z2Array, sr.Z2FermionicArray),
        "U1": (sr.U1Array, sr.U1FermionicArray),
        "Z2Z2": (sr.Z2Z2Array, sr.Z2Z2FermionicArray),
        "U1U1": (sr.U1U1Array, sr.U1U1FermionicArray),
    }[s]
    if kind == "static":
        return lambda **kw: static[0](**kw)
    return lambda **kw: static[1](oddpos=1, **kw)


def law_sectors(ch):
    import symmray as sr

    case = ch.draw(None, "case")
    s, ndim, duals = case["symm"], case["ndim"], case["duals"]
    charge, kind = case["charge"], case["kind"]
    make = _cls(s, kind)
    subsets = _subsets(SECTOR_POOL[s], case["maxlen"])
    n = 0
    nontrivial = False
    for k, chargesets in enumerate(itertools.product(subsets, repeat=ndim)):
        n += 1
        indices = tuple(
            sr.BlockIndex({c: 1 + (i + j) % 2 for j, c in enumerate(cs)}, dual=d)
            for i, (cs, d) in enumerate(zip(chargesets, duals))
        )
        x = make(indices=indices, charge=charge)
        want = G.valid_sectors(s, chargesets, duals, charge)
        got = must(lambda: list(x.gen_valid_sectors()), what="gen_valid_sectors")
        where = lambda: (
            f"{s} {kind} charges={chargesets} duals={duals} charge={charge!r}"
        )
        require(
            len(got) == len(set(got)),
            "sectors-repeated",
            lambda: f"{where()}: {got}",
        )
        missing = sorted(set(want) - set(got))
        extra = sorted(set(got) - set(want))
        require(not missing, "sectors-missing",
                lambda: f"{where()}: missing {missing[:4]}")
        require(not extra, "sectors-extra",
                lambda: f"{where()}: extra {extra[:4]}")
        wantset = set(want)
        for sec in itertools.product(*chargesets):
            v = x.is_valid_sector(sec)
            require(
                bool(v) == (sec in wantset),
                "is_valid_sector",
                lambda: f"{where()}: sector {sec} -> {v}",
            )
        if k % 7 == 0 and ndim > 0:
            # the fill constructors store exactly these sectors
            cls = type(x)
            kw = {"symmetry": s} if kind.startswith("dyn") else {}
            if kind.endswith("f"):
                kw["oddpos"] = 1
            y = must(
                cls.from_fill_fn,
                lambda shape: np.zeros(shape),
                indices,
                charge=charge,
                what="from_fill_fn",
                **kw,
            )
            require(
                set(y.sectors) == wantset and len(y.sectors) == len(wantset),
                "fill-sectors",
                lambda: f"{where()}: stored {sorted(y.sectors)[:6]}",
            )
        if ndim and any(duals) and len(chargesets[-1]) >= 2:
            nontrivial = True
    ch.mark_nontrivial(nontrivial)
    ch.count("inner", n)
    ch.label(f"{s}/ndim={ndim}/{kind}")


# the same labels under different symmetries, one after another ------------

CROSS = [
    (("Z2", "Z4", "U1"), [0, 1], [0, 1]),
    (("U1", "Z4", "Z2"), [0, 1], [0, 1]),
    (("Z2Z2", "U1U1"), [(0, 0), (0, 1), (1, 0)], [(0, 0), (0, 1), (1, 1)]),
    (("U1U1", "Z2Z2"), [(0, 0), (0, 1), (1, 0)], [(0, 0), (0, 1), (1, 1)]),
]


def cross_cases(tier):
    for k, (syms, pool, charges) in enumerate(CROSS):
        for ndim in (0, 1, 2, 3):
            for duals in itertools.product((False, True), repeat=ndim):
                yield {"group": k, "ndim": ndim, "duals": list(duals)}


def law_cross_symmetry(ch):
    """identical charge labels, directions and total charge enumerated under
    one symmetry after another with the generic classes (no result may leak
    from one symmetry to the next)"""
    import symmray as sr

    case = ch.draw(None, "case")
    syms, pool, charges = CROSS[case["group"]]
    ndim, duals = case["ndim"], case["duals"]
    subsets = _subsets(pool)
    n = 0
    for chargesets in itertools.product(subsets, repeat=ndim):
        for charge in charges:
            for ferm in (False, True):
                for s in syms:
                    if not (G.valid(s, charge) and all(
                            G.valid(s, c) for cs in chargesets for c in cs)):
                        continue
                    if ferm and s == "Z4":
                        continue
                    n += 1
                    indices = tuple(
                        sr.BlockIndex({c: 1 for c in cs}, dual=d)
                        for cs, d in zip(chargesets, duals))
                    if ferm:
                        x = sr.FermionicArray(indices=indices, charge=charge,
                                              symmetry=s, oddpos=1)
                    else:
                        x = sr.AbelianArray(indices=indices, charge=charge,
                                            symmetry=s)
                    want = G.valid_sectors(s, chargesets, duals, charge)
                    got = must(lambda: list(x.gen_valid_sectors()),
                               what="gen_valid_sectors")
                    require(
                        sorted(got) == sorted(want) and len(got) == len(want),
                        "sectors-cross-symmetry",
                        lambda: f"{s} (after {syms}) charges={chargesets} "
                                f"duals={duals} charge={charge!r}: {got} vs "
                                f"{want}")
    ch.count("inner", n)
    ch.mark_nontrivial(ndim >= 1 and any(duals))
    ch.label(f"cross/{'-'.join(syms)}/ndim={ndim}")


def law_sectors_large(ch):
    """larger structures than the exhaustive sweep reaches (5-9 legs, up to
    5 charges per leg, up to ~20000 tuples) against the brute-force filter"""
    import symmray as sr
    from hypothesis import strategies as st

    s = ch.choice(G.SYMS, "symm")
    pool = {"Z2": [0, 1], "Z4": [0, 1, 2, 3], "U1": [-3, -2, -1, 0, 1, 2, 4],
            "Z2Z2": [(0, 0), (0, 1), (1, 0), (1, 1)],
            "U1U1": [(a, b) for a in (-1, 0, 2) for b in (-2, 0, 1)]}[s]
    ndim = ch.integer(4, 9, "ndim")
    chargesets = []
    total = 1
    for k in range(ndim):
        kmax = min(len(pool), 5)
        n = ch.integer(1, kmax, f"n{k}")
        if total * n > 20000:
            n = 1
        total *= n
        cs = sorted(ch.draw(st.lists(st.sampled_from(pool), min_size=n,
                                     max_size=n, unique=True), f"cs{k}"))
        chargesets.append(tuple(cs))
    duals = [ch.boolean(f"d{k}") for k in range(ndim)]
    sec0 = [cs[ch.integer(0, len(cs) - 1, f"s{k}")]
            for k, cs in enumerate(chargesets)]
    charge = G.total(s, sec0, duals)
    indices = tuple(sr.BlockIndex({c: 1 for c in cs}, dual=d)
                    for cs, d in zip(chargesets, duals))
    kind = ch.choice([k for k in _classes(s) if not k.endswith("f")], "kind")
    x = _cls(s, kind)(indices=indices, charge=charge)
    want = G.valid_sectors(s, chargesets, duals, charge)
    got = must(lambda: list(x.gen_valid_sectors()), what="gen_valid_sectors")
    require(len(got) == len(set(got)), "sectors-repeated(large)", f"{s}")
    missing = sorted(set(want) - set(got))
    extra = sorted(set(got) - set(want))
    where = lambda: f"{s} {kind} charges={chargesets} duals={duals} " \
                    f"charge={charge!r}"
    require(not missing, "sectors-missing(large)",
            lambda: f"{where()}: {len(missing)} missing, e.g. {missing[:2]}")
    require(not extra, "sectors-extra(large)",
            lambda: f"{where()}: {len(extra)} extra, e.g. {extra[:2]}")
    lead = 1
    for cs in chargesets[:-1]:
        lead *= len(cs)
    ch.label(f"ndim={ndim}")
    ch.label("leading-product>64" if lead > 64 else "leading-product<=64")
    ch.mark_nontrivial(lead > 64 and any(duals))


LAWS = [
    Law("axioms", law_axioms, kind="enum", cases=axiom_cases,
        doc="group axioms, inverse, parity homomorphism: exhaustive"),
    Law("sectors", law_sectors, kind="enum", cases=sector_cases,
        doc="gen_valid_sectors / is_valid_sector / fill constructors == "
            "brute-force enumeration: exhaustive over small structures"),
    Law("sectors_large", law_sectors_large, quick=300, thorough=6000,
        doc="generated larger structures (4-9 legs, up to 5 charges per leg) "
            "against the brute-force filter"),
    Law("cross_symmetry", law_cross_symmetry, kind="enum", cases=cross_cases,
        doc="the same labels / directions / charge enumerated under several "
            "symmetries in turn through the generic classes"),
]

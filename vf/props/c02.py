"""C02 — abelian contraction equals dense contraction."""

import numpy as np
from hypothesis import strategies as st

from .. import gen
from ..compare import dense_equal, scalar_equal
from ..core import Discrepancy, Law, must, require
from ..model import dense as D
from ..model import groups as G
from ..model.audit import require_valid

PROPERTY_ID = "C02"
RULE = (
    "Hypothesis-generated pairs (a, partner b): 0-4 axes each, 0..min rank "
    "contracted axes in drawn order (also negative axes / the int form), "
    "symmetries Z2,U1,Z2Z2,U1U1,Z4 (static and dynamic classes), mixed "
    "directions, independently sparse operands, real and complex integer-"
    "valued data (exact comparison), modes auto/fused/blockwise, "
    "preserve_array on/off, method/function/autoray dispatch; matmul ranks "
    "(1,1),(1,2),(2,1),(2,2); trace; single-array einsum with traced pairs. "
    "Non-trivial: >=1 aligned block pair and (an operand with a missing valid "
    "sector, or mixed dualness, or >=2 contracted axes listed out of order). "
    "Counter 'accumulating' = cases where >=2 aligned pairs add into one "
    "output sector."
)
ASSUMPTIONS = [
    "numpy.tensordot / einsum / trace on the harness' own densification is "
    "the reference",
    "operands have matching contracted legs (same charge table, opposite "
    "direction) as the statement requires",
]

ALLSYMS = ("Z2", "U1", "Z2Z2", "U1U1", "Z4")


def permute_spec(spec, perm):
    s = dict(spec)
    s["idxs"] = [spec["idxs"][p] for p in perm]
    s["sectors"] = [tuple(sec[p] for p in perm) for sec in spec["sectors"]]
    s["phases"] = []
    return s


def check_result_legs(res, a, b, free_a, free_b, sig):
    """every result leg is the operand leg restricted to a subset of its
    charges with unchanged sizes and direction"""
    legs = [a.indices[i] for i in free_a] + [b.indices[i] for i in free_b]
    require(res.ndim == len(legs), sig + ":rank",
            lambda: f"rank {res.ndim} != {len(legs)}")
    for ax, (ri, oi) in enumerate(zip(res.indices, legs)):
        require(ri.dual == oi.dual, sig + ":dual",
                lambda: f"axis {ax} direction {ri.dual} != operand {oi.dual}")
        for c, d in ri.chargemap.items():
            require(
                oi.chargemap.get(c) == d, sig + ":table",
                lambda: f"axis {ax}: charge {c!r} size {d} vs operand table "
                        f"{oi.chargemap}",
            )
    return [dict(ix.chargemap) for ix in legs]


def law_tensordot(ch):
    import autoray as ar
    import symmray as sr

    pair = ch.draw(gen.contraction_pairs(ferm=False, syms=ALLSYMS,
                                         dtype="any"), "pair")
    axes_a, axes_b = list(pair["axes_a"]), list(pair["axes_b"])
    sa, sb = pair["a"], pair["b"]
    nda, ndb = len(sa["idxs"]), len(sb["idxs"])
    ncon = len(axes_a)
    form = ch.choice(["tuple", "tuple", "negative", "int"], "form")
    if form == "int":
        # bring the layout to (..., contracted) x (contracted, ...)
        fa = [i for i in range(nda) if i not in axes_a]
        fb = [i for i in range(ndb) if i not in axes_b]
        sa = permute_spec(sa, fa + axes_a)
        sb = permute_spec(sb, axes_b + fb)
        axes_a = list(range(nda - ncon, nda))
        axes_b = list(range(ncon))
    a = gen.build(sa)
    b = gen.build(sb)
    symm = sa["symm"]
    free_a = [i for i in range(nda) if i not in axes_a]
    free_b = [i for i in range(ndb) if i not in axes_b]
    da, db = D.dense_of(a), D.dense_of(b)
    want = np.tensordot(da, db, axes=(axes_a, axes_b))
    if form == "int":
        axes_arg = ncon
    elif form == "negative":
        axes_arg = (
            tuple(x - nda if k % 2 == 0 else x for k, x in enumerate(axes_a)),
            tuple(x - ndb if k % 2 == 1 else x for k, x in enumerate(axes_b)),
        )
    else:
        axes_arg = (tuple(axes_a), tuple(axes_b))
    n_aligned, n_acc = gen.aligned_pairs(
        {"a": sa, "b": sb, "axes_a": axes_a, "axes_b": axes_b}
    )
    want_charge = G.combine(symm, sa["charge"], sb["charge"])
    disp = ch.choice(["sr", "ar", "sr"], "dispatch")
    preserve = ch.boolean("preserve")
    for mode in ("auto", "fused", "blockwise"):
        sig = f"tensordot[{mode}]"
        kw = {"mode": mode, "preserve_array": preserve}
        if not preserve and mode != "fused":
            # the documented default is preserve_array=False: leave it out
            del kw["preserve_array"]
        # (the documented default axes=2 is left out)
        pos = () if (form == "int" and ncon == 2 and mode != "fused") \
            else (axes_arg,)
        if disp == "sr":
            res = must(sr.tensordot, a, b, *pos, what=sig, **kw)
        else:
            res = must(ar.do, "tensordot", a, b, *pos, what=sig, **kw)
        if isinstance(res, sr.AbelianArray):
            require(type(res) is type(a), sig + ":class",
                    lambda: f"{type(res)} from {type(a)}")
            ref = check_result_legs(res, a, b, free_a, free_b, sig)
            require(res.charge == want_charge, sig + ":charge",
                    lambda: f"charge {res.charge!r} != {want_charge!r}")
            require_valid(res, sig + ":invalid", "result")
            got = D.dense_of(res, ref=ref)
            dense_equal(got, want, sig + ":value", exact=True, what=mode)
            require(
                not (res.ndim == 0 and not preserve),
                sig + ":scalar-form",
                "rank-0 array returned although preserve_array=False",
            )
        else:
            require(
                len(free_a) + len(free_b) == 0 and not preserve,
                sig + ":type",
                lambda: f"returned {type(res)} for a rank "
                        f"{len(free_a) + len(free_b)} result",
            )
            scalar_equal(res, want, sig + ":scalar", exact=True, what=mode)
            if n_aligned == 0:
                require(res == 0, sig + ":zero", f"no aligned pair: {res!r}")
    if ncon >= 2:
        # the same pairs listed in another order (same operands, so the
        # second call meets whatever the first left in the caches)
        order = list(ch.perm(ncon, "relist"))
        ax2 = (tuple(axes_a[i] for i in order), tuple(axes_b[i] for i in order))
        for mode in ("fused", "blockwise"):
            sig = f"tensordot[{mode}]:relisted"
            res = must(sr.tensordot, a, b, ax2, what=sig, mode=mode,
                       preserve_array=True)
            ref = check_result_legs(res, a, b, free_a, free_b, sig)
            dense_equal(D.dense_of(res, ref=ref), want, sig + ":value",
                        exact=True, what=f"{mode} axes {ax2}")
    if a.blocks:
        # documented shorthand: a rank-0 second operand is a scalar factor
        r0 = must(sr.tensordot, a, 3, 0, what="tensordot(a, scalar)")
        dense_equal(D.dense_of(r0, ref=[dict(ix.chargemap)
                                        for ix in a.indices]),
                    3 * D.dense_of(a), "tensordot:scalar-operand",
                    exact=True, what="tensordot(a, 3, 0)")
    ch.label(f"symm={symm}")
    ch.label(f"ncon={ncon}")
    ch.label(f"form={form}")
    ch.label(f"ranks={nda},{ndb}")
    sparse = gen.is_sparse(sa) or gen.is_sparse(sb)
    mixed = gen.mixed_dual(sa) or gen.mixed_dual(sb)
    unordered = ncon >= 2 and (axes_a != sorted(axes_a) or axes_b != sorted(axes_b))
    if n_aligned == 0:
        ch.label("no-aligned-pair")
    if n_acc >= 2:
        ch.label("accumulating")
        ch.count("accumulating")
    if "complex" in sa["dtype"]:
        ch.label("complex")
    if "mixed" in (sa["dtype"], sb["dtype"]):
        ch.label("mixed-dtype")
    ch.mark_nontrivial(n_aligned >= 1 and (sparse or mixed or unordered))


@st.composite
def matmul_cases(draw):
    symm = draw(st.sampled_from(ALLSYMS))
    ra, rb = draw(st.sampled_from([(1, 1), (1, 2), (2, 1), (2, 2)]))
    mid = draw(gen.index_specs(symm, min_charges=draw(st.integers(1, 2))))
    ia = ([draw(gen.index_specs(symm))] if ra == 2 else []) + [mid]
    ib = [gen.conj_index_spec(mid)] + (
        [draw(gen.index_specs(symm))] if rb == 2 else []
    )
    dtype = draw(st.sampled_from(["float64", "complex128"]))
    dyn = symm == "Z4" or draw(st.integers(0, 4)) == 0
    a = draw(gen.array_specs(symm=symm, ferm=False, idxs=ia, dtype=dtype,
                             dyn=dyn))
    b = draw(gen.array_specs(symm=symm, ferm=False, idxs=ib, dtype=dtype,
                             dyn=dyn))
    return {"a": a, "b": b}


def law_matmul(ch):
    import symmray as sr

    case = ch.draw(matmul_cases(), "case")
    sa, sb = case["a"], case["b"]
    a, b = gen.build(sa), gen.build(sb)
    da, db = D.dense_of(a), D.dense_of(b)
    want = da @ db
    res = must(lambda: a @ b, what="matmul")
    symm = sa["symm"]
    nda, ndb = a.ndim, b.ndim
    n_aligned, n_acc = gen.aligned_pairs(
        {"a": sa, "b": sb, "axes_a": [nda - 1], "axes_b": [0]}
    )
    if isinstance(res, sr.AbelianArray):
        ref = check_result_legs(res, a, b, list(range(nda - 1)),
                                list(range(1, ndb)), "matmul")
        require(res.ndim > 0, "matmul:scalar-form", "rank-0 array returned")
        require(res.charge == G.combine(symm, a.charge, b.charge),
                "matmul:charge", lambda: f"{res.charge!r}")
        require_valid(res, "matmul:invalid", "result")
        dense_equal(D.dense_of(res, ref=ref), want, "matmul:value", what="a@b")
    else:
        require(nda == 1 and ndb == 1, "matmul:type",
                lambda: f"{type(res)} for ranks {nda},{ndb}")
        scalar_equal(res, want, "matmul:scalar", what="a@b")
        if n_aligned == 0:
            require(res == 0, "matmul:zero", f"{res!r}")
    ch.label(f"ranks={nda},{ndb}")
    ch.label(f"symm={symm}")
    ch.mark_nontrivial(
        n_aligned >= 1 and (gen.is_sparse(sa) or gen.is_sparse(sb)
                            or gen.mixed_dual(sa) or gen.mixed_dual(sb))
    )


@st.composite
def einsum_cases(draw, ferm=False, syms=ALLSYMS):
    symm = draw(st.sampled_from(list(syms)))
    npairs = draw(st.integers(0, 2))
    nkeep = draw(st.integers(0, 4 - 2 * npairs if npairs else 3))
    if npairs == 0 and nkeep == 0:
        nkeep = 1
    letters = "abcdefgh"
    legs = []  # (letter, index spec)
    for p in range(npairs):
        ix = draw(gen.index_specs(symm, min_charges=draw(st.integers(1, 2))))
        legs.append((letters[p], ix))
        legs.append((letters[p], gen.conj_index_spec(ix)))
    for k in range(nkeep):
        legs.append((letters[npairs + k], draw(gen.index_specs(symm))))
    order = draw(st.permutations(list(range(len(legs)))))
    legs = [legs[i] for i in order]
    lhs = "".join(l for l, _ in legs)
    kept = [letters[npairs + k] for k in range(nkeep)]
    rhs = "".join(draw(st.permutations(kept)))
    spec = draw(
        gen.array_specs(symm=symm, ferm=ferm, idxs=[ix for _, ix in legs],
                        dyn=(symm == "Z4") or draw(st.integers(0, 4)) == 0)
    )
    return {"x": spec, "eq": f"{lhs}->{rhs}", "npairs": npairs}


def law_einsum(ch):
    import autoray as ar
    import symmray as sr

    case = ch.draw(einsum_cases(), "case")
    spec, eq = case["x"], case["eq"]
    x = gen.build(spec)
    dx = D.dense_of(x)
    want = np.einsum(eq, dx)
    lhs, rhs = eq.split("->")
    preserve = ch.boolean("preserve")
    form = ch.choice(["method", "sr", "ar"], "form")
    if preserve or form == "method":
        res = must(x.einsum, eq, preserve_array=preserve, what="einsum")
    elif form == "sr":
        res = must(sr.einsum, eq, x, what="einsum")
    else:
        res = must(ar.do, "einsum", eq, x, what="einsum")
    traced_diag = any(
        all(sec[i] == sec[j] for i, j in _pairs(lhs, rhs)) for sec in spec["sectors"]
    )
    if isinstance(res, sr.AbelianArray):
        require(res.ndim == len(rhs), "einsum:rank", f"{res.ndim} for {eq}")
        require(not (len(rhs) == 0 and not preserve), "einsum:scalar-form", eq)
        ref = []
        for ax, q in enumerate(rhs):
            oi = x.indices[lhs.index(q)]
            ri = res.indices[ax]
            require(ri.dual == oi.dual, "einsum:dual", f"axis {ax} of {eq}")
            for c, d in ri.chargemap.items():
                require(oi.chargemap.get(c) == d, "einsum:table",
                        lambda: f"axis {ax}: {ri.chargemap} vs {oi.chargemap}")
            ref.append(dict(oi.chargemap))
        require(res.charge == x.charge, "einsum:charge",
                lambda: f"{res.charge!r} vs {x.charge!r}")
        require_valid(res, "einsum:invalid", "result")
        dense_equal(D.dense_of(res, ref=ref), want, "einsum:value", what=eq)
    else:
        require(len(rhs) == 0 and not preserve, "einsum:type",
                lambda: f"{type(res)} for {eq}")
        scalar_equal(res, want, "einsum:scalar", what=eq)
        if not traced_diag:
            require(res == 0, "einsum:zero", f"{res!r}")
    ch.label(f"pairs={case['npairs']}")
    ch.label(f"symm={spec['symm']}")
    ch.mark_nontrivial(
        case["npairs"] >= 1 and traced_diag
        and (gen.is_sparse(spec) or gen.mixed_dual(spec) or len(rhs) >= 2)
    )


def _pairs(lhs, rhs):
    seen = {}
    out = []
    for i, q in enumerate(lhs):
        if q in rhs:
            continue
        if q in seen:
            out.append((seen[q], i))
        else:
            seen[q] = i
    return out


@st.composite
def trace_cases(draw, ferm=False, syms=ALLSYMS):
    symm = draw(st.sampled_from(list(syms)))
    ix = draw(gen.index_specs(symm, min_charges=draw(st.integers(1, 2))))
    spec = draw(
        gen.array_specs(symm=symm, ferm=ferm,
                        idxs=[ix, gen.conj_index_spec(ix)],
                        dyn=(symm == "Z4") or draw(st.integers(0, 4)) == 0)
    )
    return spec


def law_trace(ch):
    import autoray as ar
    import symmray as sr

    spec = ch.draw(trace_cases(), "x")
    x = gen.build(spec)
    want = np.trace(D.dense_of(x))
    form = ch.choice(["method", "sr", "ar"], "form")
    if form == "method":
        res = must(x.trace, what="trace")
    elif form == "sr":
        res = must(sr.trace, x, what="trace")
    else:
        res = must(ar.do, "trace", x, what="trace")
    require(not isinstance(res, sr.AbelianArray), "trace:type", f"{type(res)}")
    scalar_equal(res, want, "trace:value", what="trace")
    diag = [s for s in spec["sectors"] if s[0] == s[1]]
    if not diag:
        require(res == 0, "trace:zero", f"{res!r}")
    ch.label(f"symm={spec['symm']}")
    ch.mark_nontrivial(bool(diag) and (gen.is_sparse(spec) or len(diag) >= 2))


def law_fused_legs(ch):
    """operands that carry an axis fused beforehand (contracted against a
    partner built on the conjugate of that very index object, or left free)"""
    import symmray as sr
    from ..layout import fuse_layout

    spec = ch.draw(gen.array_specs(ferm=False, syms=ALLSYMS, min_ndim=3,
                                   max_ndim=4, max_size=2, allow_empty=False),
                   "a")
    a0 = gen.build(spec)
    if not a0.blocks:
        return
    nd0 = a0.ndim
    k = ch.integer(2, nd0 - 1, "k")
    grp = list(ch.perm(nd0, "group"))[:k]
    a = must(a0.fuse, tuple(grp), what="prefuse")
    nd = a.ndim
    fpos = fuse_layout(nd0, [grp])[0]
    ncon = ch.integer(1, nd, "ncon")
    axes_a = list(ch.perm(nd, "axes"))[:ncon]
    symm = spec["symm"]
    legs = [a.indices[i].conj() for i in axes_a]
    nfree = ch.integer(0, 2, "nfree")
    for q in range(nfree):
        legs.append(gen.build_index(ch.draw(gen.index_specs(symm, max_size=2),
                                            f"free{q}")))
    order = list(ch.perm(len(legs), "order"))
    legs = [legs[i] for i in order]
    axes_b = [order.index(q) for q in range(ncon)]
    duals = [l.dual for l in legs]
    cms = [dict(l.chargemap) for l in legs]
    if any(not cm for cm in cms):
        return
    sec0 = [ch.choice(sorted(cm), f"c{q}") for q, cm in enumerate(cms)]
    qb = G.total(symm, sec0, duals)
    secs = G.valid_sectors(symm, [sorted(cm) for cm in cms], duals, qb)
    keep = ch.subset(secs, "bsectors", min_size=1) if len(secs) <= 10 else secs
    rng = np.random.default_rng(ch.integer(0, 999, "bseed"))
    blocks = {s_: rng.integers(-3, 4, size=[cm[c] for c, cm in zip(s_, cms)]
                               ).astype("float64") for s_ in keep}
    cls = type(a)
    kw = {"symmetry": symm} if not cls.static_symmetry else {}
    b = must(cls, indices=tuple(legs), charge=qb, blocks=blocks,
             what="__init__", **kw)
    da, db = D.dense_of(a), D.dense_of(b)
    want = np.tensordot(da, db, axes=(axes_a, axes_b))
    free_a = [i for i in range(nd) if i not in axes_a]
    free_b = [i for i in range(len(legs)) if i not in axes_b]
    for mode in ("blockwise", "fused", "auto"):
        sig = f"fused-legs[{mode}]"
        r = must(sr.tensordot, a, b, (axes_a, axes_b), mode=mode,
                 preserve_array=True, what=sig)
        ref = check_result_legs(r, a, b, free_a, free_b, sig)
        require_valid(r, sig + ":invalid", "result")
        for ax, i in enumerate(free_a):
            require((r.indices[ax].subinfo is None)
                    == (a.indices[i].subinfo is None), sig + ":fusedness",
                    lambda: f"free leg {i} of a")
        dense_equal(D.dense_of(r, ref=ref), want, sig + ":value", what=mode)
    ch.label("fused-leg-contracted" if fpos in axes_a else "fused-leg-free")
    ch.mark_nontrivial(gen.is_sparse(spec))


LAWS = [
    Law("tensordot", law_tensordot, quick=2400, thorough=48000,
        doc="tensordot (all modes, axes forms, dispatch) == numpy.tensordot "
            "of the dense forms, placed in the operands' free-leg sectors"),
    Law("fused_legs", law_fused_legs, quick=600, thorough=8000,
        doc="operands carrying a pre-fused axis, contracted against a "
            "partner on the conjugate index object or left free"),
    Law("matmul", law_matmul, quick=600, thorough=8000,
        doc="a @ b for ranks (1,1),(1,2),(2,1),(2,2) == dense product"),
    Law("einsum", law_einsum, quick=800, thorough=12000,
        doc="single-array einsum (traces + permutation) == numpy.einsum"),
    Law("trace", law_trace, quick=400, thorough=6000,
        doc="trace of a matrix with matching legs == dense trace"),
]

"""C05 — fusing is an exact, invertible re-indexing described by the fused
index."""

import itertools

import numpy as np
from hypothesis import strategies as st

from .. import gen
from ..compare import index_struct, same_array
from ..core import Discrepancy, Law, must, require
from ..model import dense as D
from ..model import groups as G
from ..model.audit import require_valid
from ..nocache import no_caches

PROPERTY_ID = "C05"
RULE = (
    "Arrays (abelian: Z2,U1,Z2Z2,U1U1,Z4; fermionic: the first four; static "
    "and dynamic classes; 1-5 axes; sparse) filled with unique positive "
    "integer tags, optionally carrying an axis that was fused beforehand by "
    "the library; one or more disjoint axis groups in drawn order "
    "(single-axis groups, non-adjacent / permuted axes, groups containing the "
    "pre-fused axis); strategies insert / concat / auto; cache on and "
    "bypassed. Oracle: the fused array's own sub-index tables - every tag is "
    "looked up at the coordinate the tables assign to it (vf.model.dense."
    "elements); round trip through unfuse. Exhaustive law: Z2 and U1 arrays "
    "of rank <=3 with <=2 charges per axis, every direction pattern, every "
    "ordered grouping, every subset of valid sectors. Non-trivial: >=1 group "
    "of >=2 axes and >=1 missing valid sector."
)
ASSUMPTIONS = [
    "fermionic arrays: the statement fixes locations and magnitudes (signs of "
    "fused fermionic arrays are decided by C06/C03), the round trip is exact "
    "including signs",
]
ALLSYMS = ("Z2", "U1", "Z2Z2", "U1U1", "Z4")


def all_groupings(n, max_groups=3):
    """every ordered list of disjoint non-empty ordered groups over n axes"""
    out = []
    axes = list(range(n))

    def rec(remaining, groups):
        if groups:
            out.append(tuple(groups))
        if len(groups) >= max_groups:
            return
        for k in range(1, len(remaining) + 1):
            for sub in itertools.permutations(remaining, k):
                rest = [a for a in remaining if a not in sub]
                rec(rest, groups + [tuple(sub)])

    rec(axes, [])
    return out


@st.composite
def groupings(draw, ndim, must_include=None):
    perm = draw(st.permutations(list(range(ndim))))
    ngroups = draw(st.integers(1, min(3, ndim)))
    lo = min(ndim, ngroups + 1) if draw(st.integers(0, 9)) < 8 else ngroups
    used = draw(st.integers(lo, ndim))
    axes = list(perm[:used])
    if must_include is not None and must_include not in axes:
        axes[0] = must_include
    # cut 'axes' into ngroups non-empty consecutive pieces
    cuts = sorted(
        draw(st.lists(st.integers(1, used - 1), min_size=ngroups - 1,
                      max_size=ngroups - 1, unique=True))
    ) if ngroups > 1 else []
    groups = []
    prev = 0
    for c in cuts + [used]:
        groups.append(tuple(axes[prev:c]))
        prev = c
    return [list(g) for g in groups]


@st.composite
def fuse_cases(draw, ferm=None):
    if ferm is None:
        ferm = draw(st.booleans())
    syms = gen.SYMS4 if ferm else ALLSYMS
    spec = draw(
        gen.array_specs(ferm=ferm, syms=syms,
                        min_ndim=draw(st.sampled_from([1, 2, 2, 3, 3])),
                        max_ndim=draw(st.sampled_from([3, 4, 4, 5])),
                        max_size=2,
                        data="tags", allow_empty=False,
                        dtype=draw(st.sampled_from(
                            ["float64", "float64", "complex128"])))
    )
    nd = len(spec["idxs"])
    pre = None
    if nd >= 3 and draw(st.integers(0, 2)) == 0:
        k = draw(st.integers(2, nd - 1))
        pre = list(draw(st.permutations(list(range(nd))))[:k])
        nd2 = nd - k + 1
        pre_pos = min(pre)
        groups = draw(groupings(nd2, must_include=pre_pos
                                if draw(st.booleans()) else None))
    else:
        groups = draw(groupings(nd))
    case = {"x": spec, "prefuse": pre, "groups": groups}
    if pre is not None:
        # a sibling over the same indices with another sparsity pattern: its
        # pre-fused index has the same sizes but (often) other sub-sectors,
        # and it is fused right after x, through whatever x left in the cache
        secs = gen.spec_valid_sectors(spec["symm"], spec["idxs"],
                                      spec["charge"])
        if len(secs) > 1:
            case["sibling"] = draw(gen.sector_subset(secs, mode="sparse"))
    return case


def expected_layout(ndim, groups):
    position = min(min(g) for g in groups)
    grouped = {a for g in groups for a in g}
    before = [a for a in range(position) if a not in grouped]
    after = [a for a in range(position, ndim) if a not in grouped]
    perm = before + [a for g in groups for a in g] + after
    return position, before, after, perm


def check_fuse(ch, x, groups, ferm, modes=("auto", "insert", "concat"),
               cache_check=True):
    """All C05 laws for one array and one grouping. Returns the fused array."""
    nd = x.ndim
    position, before, after, perm = expected_layout(nd, groups)
    gtuple = tuple(tuple(g) for g in groups)
    ex = D.elements(x, apply_phases=True, per_axis=True)
    results = {}
    if ferm:
        results["auto"] = must(x.fuse, *gtuple, what="fuse")
    else:
        for m in modes:
            results[m] = must(x.fuse, *gtuple, mode=m, what=f"fuse[{m}]")
    first = None
    for m, y in results.items():
        sig = f"fuse[{m}]"
        require_valid(y, sig + ":invalid", "fused array")
        # rank, leg positions
        require(y.ndim == len(before) + len(groups) + len(after),
                sig + ":rank", lambda: f"{y.ndim}")
        require(y.charge == x.charge, sig + ":charge", f"{y.charge!r}")
        for k, a in enumerate(before):
            require(index_struct(y.indices[k]) == index_struct(x.indices[a]),
                    sig + ":layout", lambda: f"leading axis {k}")
        for k, a in enumerate(after):
            kk = len(before) + len(groups) + k
            require(index_struct(y.indices[kk]) == index_struct(x.indices[a]),
                    sig + ":layout", lambda: f"trailing axis {kk}")
        for g, grp in enumerate(groups):
            fi = y.indices[position + g]
            if len(grp) == 1:
                require(index_struct(fi) == index_struct(x.indices[grp[0]]),
                        sig + ":singleton", lambda: f"group {g}")
                continue
            require(fi.dual == x.indices[grp[0]].dual, sig + ":direction",
                    lambda: f"group {grp}: fused dual {fi.dual}, first axis "
                            f"{x.indices[grp[0]].dual}")
            require(fi.subinfo is not None, sig + ":no-subinfo", f"group {g}")
            subs = fi.subinfo.indices
            require(
                len(subs) == len(grp) and all(
                    index_struct(s) == index_struct(x.indices[a])
                    for s, a in zip(subs, grp)),
                sig + ":subindices",
                lambda: f"group {grp}: sub-index list does not equal the "
                        "group's indices in order")
        # relocation: every tag exactly where the tables say
        ey = D.elements(y, apply_phases=True, per_axis=False)
        want = {}
        for key, v in ex.items():
            flat = ()
            for a in perm:
                flat += key[a]
            want[flat] = v
        if ferm:
            got_abs = {k: abs(v) for k, v in ey.items()}
            want_abs = {k: abs(v) for k, v in want.items()}
            ok = got_abs == want_abs
        else:
            ok = ey == want
        if not ok:
            missing = [k for k in want if k not in ey]
            extra = [k for k in ey if k not in want]
            moved = [k for k in want if k in ey and abs(ey[k]) != abs(want[k])]
            sgn = [] if ferm else [
                k for k in want if k in ey and abs(ey[k]) == abs(want[k])
                and ey[k] != want[k]]
            raise Discrepancy(
                sig + ":relocation",
                f"groups {groups}: {len(missing)} elements missing, "
                f"{len(extra)} invented, {len(moved)} at the wrong place, "
                f"{len(sgn)} with changed value; e.g. "
                f"{(missing or extra or moved or sgn)[:1]}",
            )
        if first is None:
            first = (m, y)
        else:
            same_array(y, first[1], f"strategies-differ[{first[0]} vs {m}]",
                       exact=True)
        # round trip: unfuse exactly what was fused, right to left
        z = y
        for g in reversed(range(len(groups))):
            if len(groups[g]) > 1:
                z = must(z.unfuse, position + g, what="unfuse")
        inv = [perm.index(a) for a in range(nd)]
        z = must(z.transpose, tuple(inv), what="transpose")
        same_array(z, x, sig + ":roundtrip", exact=True)
        if all(len(g) > 1 for g in groups) and not any(
                ix.subinfo is not None for ix in x.indices):
            z2 = must(y.unfuse_all, what="unfuse_all")
            z2 = must(z2.transpose, tuple(inv), what="transpose")
            same_array(z2, x, sig + ":roundtrip-unfuse_all", exact=True)
    # the conjugate (same index objects, reversed directions) fused the same
    # way right afterwards must behave like a fresh array
    xc = must(x.conj, what="conj")
    yc = must(xc.fuse, *gtuple, what="fuse(conj)")
    require_valid(yc, "fuse-conj:invalid", "fused conjugate")
    for g, grp in enumerate(groups):
        require(yc.indices[position + g].dual == xc.indices[grp[0]].dual,
                "fuse-conj:direction",
                lambda: f"group {grp}: fused dual "
                        f"{yc.indices[position + g].dual}")
    zc = yc
    for g in reversed(range(len(groups))):
        if len(groups[g]) > 1:
            zc = must(zc.unfuse, position + g, what="unfuse(conj)")
    zc = must(zc.transpose, tuple([perm.index(a) for a in range(nd)]),
              what="transpose")
    same_array(zc, xc, "fuse-conj:roundtrip", exact=True)
    if cache_check:
        m0, y0 = first
        with no_caches():
            if ferm:
                yb = must(x.fuse, *gtuple, what="fuse[nocache]")
            else:
                yb = must(x.fuse, *gtuple, mode=m0, what="fuse[nocache]")
        same_array(yb, y0, "cache:fuse-differs-from-uncached", exact=True)
    return first[1]


def law_fuse(ch):
    case = ch.draw(fuse_cases(), "case")
    spec = case["x"]
    ferm = spec["ferm"]
    x = gen.build(spec)
    if not x.blocks:
        return
    if case["prefuse"]:
        x0 = x
        x = must(x.fuse, tuple(case["prefuse"]), what="prefuse")
        ch.label("pre-fused-axis")
        if not ferm:
            # conjugating a fused array and unfusing it afterwards equals
            # conjugating the original (nested bookkeeping is conjugated too)
            from ..layout import fuse_layout

            pos, _, _, pperm, _ = fuse_layout(x0.ndim, [case["prefuse"]])
            u = must(lambda: x.conj().unfuse(pos), what="conj.unfuse")
            want = must(lambda: x0.conj().transpose(tuple(pperm)),
                        what="conj.transpose")
            same_array(u, want, "conj-of-fused:unfuse", exact=True)
    groups = case["groups"]
    if any(a >= x.ndim for g in groups for a in g):
        return
    y = check_fuse(ch, x, groups, ferm)
    if case["prefuse"] and not ferm:
        # two-level: conj of the (possibly nested) fused result, unfuse
        # everything, compare with the conjugated original element-wise
        yc = must(y.conj, what="conj")
        require_valid(yc, "conj-of-fused:invalid", "conj of fused array")
        flat = yc
        for _ in range(4):
            fa = [i for i, ix in enumerate(flat.indices)
                  if ix.subinfo is not None]
            if not fa:
                break
            flat = must(flat.unfuse, fa[-1], what="unfuse")
        require_valid(flat, "conj-of-fused:unfused-invalid",
                      "fully unfused conjugate")
        e1 = D.elements(flat)
        e2 = {k: np.conj(v) for k, v in D.elements(y).items()}
        require(e1 == e2, "conj-of-fused:elements",
                "conj then full unfuse moved or changed elements")
    sib = case.get("sibling")
    if case["prefuse"] and sib and sorted(map(tuple, sib)) != sorted(
            map(tuple, spec["sectors"])):
        spec_s = dict(spec, sectors=list(sib))
        if ferm:
            spec_s["phases"] = None
        xs = must(gen.build(spec_s).fuse, tuple(case["prefuse"]),
                  what="prefuse(sibling)")
        ch.label("pre-fused-sibling")
        check_fuse(ch, xs, groups, ferm)
    for lab in gen.spec_summary(spec):
        ch.label(lab)
    big = any(len(g) >= 2 for g in groups)
    ch.label(f"ngroups={len(groups)}")
    if any(len(g) == 1 for g in groups):
        ch.label("singleton-group")
    ch.mark_nontrivial(big and gen.is_sparse(spec))


def law_empty_groups(ch):
    """documented: an empty group is ignored (expand_empty=False) or becomes
    a new size-one axis at (first fused axis + its position in the list)"""
    case = ch.draw(fuse_cases(), "case")
    spec = case["x"]
    x = gen.build(spec)
    groups = [tuple(g) for g in case["groups"]]
    if not x.blocks or not groups or any(
            a >= x.ndim for g in groups for a in g):
        return
    nempty = ch.integer(1, 2, "nempty")
    withempty = list(groups)
    for k in range(nempty):
        withempty.insert(ch.integer(0, len(withempty), f"pos{k}"), ())
    mode = ch.choice(["auto", "insert", "concat"], "mode")
    mkw = {} if spec["ferm"] else {"mode": mode}
    plain = must(x.fuse, *groups, what="fuse", **mkw)
    ign = must(x.fuse, *withempty, expand_empty=False,
               what="fuse(expand_empty=False)", **mkw)
    same_array(ign, plain, "empty-group:ignored", exact=True)
    expand = ch.boolean("explicit-kw")
    kw = {"expand_empty": True} if expand else {}
    y = must(x.fuse, *withempty, what="fuse(empty group)", **kw, **mkw)
    require_valid(y, "empty-group:invalid", f"groups {withempty}")
    g0 = min(a for g in groups for a in g)
    newpos = [g0 + k for k, g in enumerate(withempty) if not g]
    require(y.ndim == plain.ndim + nempty, "empty-group:rank",
            lambda: f"{y.ndim} for groups {withempty}")
    e = G.identity(spec["symm"])
    for p_ in newpos:
        require(p_ < y.ndim and dict(y.indices[p_].chargemap) == {e: 1},
                "empty-group:position",
                lambda: f"groups {withempty}: expected a size-one charge-zero "
                        f"axis at {p_}, shape {y.shape}")
    back = y
    for p_ in sorted(newpos, reverse=True):
        back = must(back.squeeze, p_, what="squeeze")
    same_array(back, plain, "empty-group:content", exact=True)
    ch.label(f"nempty={nempty}")
    ch.mark_nontrivial(any(len(g) >= 2 for g in groups))


# ------------------------------------------------------------ exhaustive ----

EXH = {
    "Z2": ([{0: 1, 1: 2}, {0: 2, 1: 1}, {0: 1, 1: 1}], [0, 1]),
    "U1": ([{0: 1, 1: 2}, {-1: 2, 1: 1}, {0: 1, 1: 1}], [0, 1, -1]),
}


def exhaustive_cases(tier):
    stride = 11 if tier == "quick" else 1
    k = 0
    for symm, (cms, charges) in EXH.items():
        for nd in (1, 2, 3):
            for duals in itertools.product((False, True), repeat=nd):
                for charge in charges:
                    for ferm in (False, True):
                        k += 1
                        if k % stride:
                            continue
                        yield {"symm": symm, "nd": nd, "duals": list(duals),
                               "charge": charge, "ferm": ferm}


def law_exhaustive(ch):
    case = ch.draw(None, "case")
    symm, nd, duals = case["symm"], case["nd"], case["duals"]
    ferm = case["ferm"]
    cms, _ = EXH[symm]
    idxs = [{"cm": dict(cms[i]), "dual": duals[i]} for i in range(nd)]
    secs = gen.spec_valid_sectors(symm, idxs, case["charge"])
    if not secs or len(secs) > 8:
        return
    if ferm and G.parity(symm, case["charge"]) and False:
        return
    n = 0
    groupings_ = all_groupings(nd)
    for r in range(1, len(secs) + 1):
        for stored in itertools.combinations(secs, r):
            spec = {"symm": symm, "ferm": ferm, "dyn": False, "idxs": idxs,
                    "charge": case["charge"], "sectors": list(stored),
                    "nvalid": len(secs), "seed": 0, "dtype": "float64",
                    "data": "tags", "oddpos": 7, "phases": []}
            x = gen.build(spec)
            for groups in groupings_:
                n += 1
                check_fuse(ch, x, [list(g) for g in groups], ferm,
                           cache_check=(n % 5 == 0))
    ch.count("inner", n)
    ch.mark_nontrivial(nd >= 2 and len(secs) >= 2)
    ch.label(f"{symm}/nd={nd}/{'ferm' if ferm else 'abel'}")


LAWS = [
    Law("fuse", law_fuse, quick=2400, thorough=40000,
        doc="relocation through the fused index's own tables, layout, "
            "direction, sub-index list, round trip, insert==concat==auto, "
            "cached==uncached"),
    Law("empty_groups", law_empty_groups, quick=500, thorough=6000,
        doc="empty groups are ignored or become size-one axes at the "
            "documented positions; content unchanged"),
    Law("exhaustive", law_exhaustive, kind="enum", cases=exhaustive_cases,
        doc="the same laws for every Z2/U1 structure of rank<=3, every "
            "ordered grouping and every subset of valid sectors (quick: "
            "1/11 stride of the structures)"),
]

"""C14 — operations never modify their operands unless asked to."""

import operator

import numpy as np

from .. import gen, ops
from ..compare import same_array, snapshot, snapshot_diff
from ..core import Discrepancy, Law, attempt, must, require, tier

PROPERTY_ID = "C14"
RULE = (
    "Model-based histories over a pool of arrays, each stored with a deep "
    "snapshot (block order, block bytes and dtype, per-axis tables with "
    "nested fuse bookkeeping, charge, sign table, labels). Rules: every "
    "catalogue operation out of place on a pool member (partners are "
    "snapshotted too); results join the pool WITHOUT copying (they may alias "
    "operand memory); in-place rules (inplace=True, += -= *= /=, "
    "fill/drop_missing_blocks) act either on a shallow copy (sharing block "
    "memory with its source) or directly on a pool member. After every rule "
    "every pool member other than the declared in-place target must equal "
    "its snapshot bit for bit; an in-place call must return the target "
    "object holding exactly the out-of-place result. Non-trivial: a history "
    "in which a result shares memory with an operand and a later rule acts "
    "on either, or an in-place rule ran, or a fermionic member has pending "
    "signs."
)
ASSUMPTIONS = [
    "observable state = what the snapshot records; raw storage accessors "
    "(set_params, apply_to_arrays, modify) are in-place by definition",
]
ALLSYMS = ("Z2", "U1", "Z2Z2", "U1U1", "Z4")
WEIGHTS = {"fuse": 3, "unfuse": 4, "unfuse_all": 2, "phase_flip": 2,
           "phase_transpose": 2, "reshape": 2, "tensordot": 3,
           "svd_truncated": 2,
           "qr": 2, "svd": 2, "conj": 2, "dagger": 2, "add": 2, "mul": 2,
           "phase_sync": 2, "sync_charges": 2, "align_axes": 2}

IOPS = {"iadd": operator.iadd, "isub": operator.isub, "imul": operator.imul,
        "itruediv": operator.itruediv}
OOPS = {"iadd": operator.add, "isub": operator.sub, "imul": operator.mul,
        "itruediv": operator.truediv}


def shares_memory(a, b):
    for x in a.blocks.values():
        for y in b.blocks.values():
            if np.shares_memory(np.asarray(x), np.asarray(y)):
                return True
    return False


class Pool:
    def __init__(self):
        self.items = []  # [obj, snapshot]

    def add(self, obj):
        self.items.append([obj, snapshot(obj)])
        if len(self.items) > 7:
            self.items.pop(0)

    def verify(self, what, skip=None):
        for k, (obj, snap) in enumerate(self.items):
            if obj is skip:
                continue
            now = snapshot(obj)
            if now != snap:
                raise Discrepancy(
                    f"{what}:operand-modified:{snapshot_diff(snap, now)}",
                    f"pool member {k} changed ({snapshot_diff(snap, now)}) "
                    f"after {what}")

    def resnap(self, obj):
        for it in self.items:
            if it[0] is obj:
                it[1] = snapshot(obj)


def law_history(ch):
    import symmray as sr

    spec = ch.draw(gen.array_specs(syms=ALLSYMS, max_ndim=4, max_size=2,
                                   allow_empty=False, dtype="any"), "x0")
    pool = Pool()
    pool.add(gen.build(spec))
    nsteps = ch.choice(range(3, 11 if tier() == "quick" else 25), "nsteps")
    nontrivial = bool(spec.get("phases"))
    done = []
    for step in range(nsteps):
        t = f"s{step}"
        k = ch.integer(0, len(pool.items) - 1, t + ".pick")
        x = pool.items[k][0]
        if not ops.is_arr(x):
            continue
        rule = ch.choice(["op", "op", "op", "inplace-kw", "inplace-kw",
                          "ioperator", "blocks", "lazy-pair"], t + ".rule")
        if rule == "lazy-pair":
            # a pair of operations: first make the member lazily signed
            # (out of place), then run an operation that has to apply the
            # signs on that lazy operand; the lazy operand must stay lazy
            if not (ops.ferm(x) and x.ndim >= 1 and x.blocks):
                continue
            axs = ch.subset(range(x.ndim), t + ".flip", min_size=1)
            z = must(x.phase_flip, *axs, what="phase_flip")
            pool.verify("phase_flip")
            pool.add(z)
            names = [n for n, o in ops.OPS.items() if o.reads_blocks]
            op, args = ops.draw_op(ch, z, t, names=names,
                                   weights={"unfuse": 5, "fuse": 3,
                                            "reshape": 2})
            if op is None:
                continue
            ok, r = attempt(op.apply, z, args)
            pool.verify(f"{op.name}[lazy operand]")
            if ok:
                for y in ops.arrays_in(r):
                    if ops.is_arr(y) and y.ndim <= 6:
                        pool.add(y)
            nontrivial = nontrivial or bool(z.phases)
            done.append(f"lazy:{op.name}")
            continue
        if rule == "op":
            op, args = ops.draw_op(ch, x, t, weights=WEIGHTS)
            if op is None:
                continue
            partner = None
            if isinstance(args, dict) and "y" in args:
                partner = ops.build_partner(args["y"], True)
                psnap = snapshot(partner)
                ops._PARTNER_OVERRIDE = partner
            try:
                ok, r = attempt(op.apply, x, args)
            finally:
                ops._PARTNER_OVERRIDE = None
            what = op.name
            pool.verify(what)
            if partner is not None and snapshot(partner) != psnap:
                raise Discrepancy(
                    f"{what}:partner-modified",
                    f"second operand changed "
                    f"({snapshot_diff(psnap, snapshot(partner))})")
            if ok:
                for y in ops.arrays_in(r):
                    if ops.is_arr(y) and y.ndim <= 6:
                        if any(ops.is_arr(m[0]) and shares_memory(y, m[0])
                               for m in pool.items):
                            ch.count("result-aliases-operand")
                            nontrivial = True
                        pool.add(y)
            done.append(what)
        elif rule == "inplace-kw":
            names = [n for n, o in ops.OPS.items() if o.inplace]
            op, args = ops.draw_op(ch, x, t, names=names)
            if op is None:
                continue
            direct = ch.boolean(t + ".direct", p=0.4)
            what = f"{op.name}(inplace=True)"
            ok0, want = attempt(op.apply, x.copy(), args)
            pool.verify(what + "[reference]")
            tgt = x if direct else x.copy()
            ok, r = attempt(op.apply, tgt, args, inplace=True)
            pool.verify(what, skip=tgt if direct else None)
            if ok != ok0:
                raise Discrepancy(
                    f"{what}:raises-differently",
                    f"out of place ok={ok0}, in place ok={ok}: "
                    f"{want if not ok0 else r}")
            if ok:
                require(r is tgt, f"{what}:returns-other-object",
                        "the in-place call did not return its target")
                same_array(r, want, f"{what}:differs-from-out-of-place",
                           exact=True)
            if direct:
                pool.resnap(tgt)
            elif ok:
                pool.add(tgt)
            nontrivial = True
            done.append(what)
        elif rule == "ioperator":
            name = ch.choice(list(IOPS), t + ".iop")
            scalar = name == "itruediv" or ch.boolean(t + ".scalar", p=0.3)
            if scalar:
                other = ch.choice([2, -1.0, 0.5, 3], t + ".s")
            else:
                if ops.fused_axes(x):
                    continue
                ps = ops.partner_spec(ch, x, ops.idx_specs_of(x), t,
                                      charge=x.charge)
                other = ops.build_partner(ps, True)
                osnap = snapshot(other)
            direct = ch.boolean(t + ".direct", p=0.4)
            what = name
            ok0, want = attempt(OOPS[name], x.copy(), other)
            pool.verify(what + "[reference]")
            tgt = x if direct else x.copy()
            ok, r = attempt(IOPS[name], tgt, other)
            pool.verify(what, skip=tgt if direct else None)
            if not scalar and snapshot(other) != osnap:
                raise Discrepancy(f"{what}:partner-modified",
                                  "right operand changed")
            if ok and ok0:
                require(r is tgt, f"{what}:returns-other-object", "")
                same_array(r, want, f"{what}:differs-from-out-of-place",
                           exact=True)
            if direct:
                pool.resnap(tgt)
            elif ok:
                pool.add(tgt)
            nontrivial = True
            done.append(what)
        else:
            which = ch.choice(["fill_missing_blocks", "drop_missing_blocks"],
                              t + ".which")
            if not x.blocks or ops.fused_axes(x):
                continue
            direct = ch.boolean(t + ".direct", p=0.4)
            tgt = x if direct else x.copy()
            ok, r = attempt(getattr(tgt, which))
            pool.verify(which, skip=tgt if direct else None)
            if direct:
                pool.resnap(tgt)
            elif ok:
                pool.add(tgt)
            nontrivial = True
            done.append(which)
    pool.verify("end-of-history")
    ch.label(f"steps={len(done)}")
    for o in set(done):
        ch.label(f"rule={o}")
    ch.label("ferm" if spec["ferm"] else "abel")
    ch.mark_nontrivial(nontrivial and len(done) >= 2)


LAWS = [
    Law("history", law_history, quick=3000, thorough=60000,
        doc="operation histories with deep snapshots of every pool member "
            "and partner; in-place forms equal out-of-place results"),
]

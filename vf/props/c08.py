"""C08 — structural, elementwise and arithmetic operations commute with
densification (abelian arrays and block vectors)."""

import operator

import numpy as np
from hypothesis import strategies as st

from .. import gen
from ..compare import dense_equal, same_array, scalar_equal
from ..core import Discrepancy, Law, attempt, must, require
from ..model import dense as D
from ..model import groups as G
from ..model.audit import require_valid

PROPERTY_ID = "C08"
RULE = (
    "Hypothesis-generated abelian arrays (Z2,U1,Z2Z2,U1U1,Z4; static and "
    "dynamic classes; 0-4 axes; sparse; real/complex integer-valued data) and "
    "block vectors; every listed operation through method / symmray function "
    "/ autoray dispatch; binary operands share legs and charge but have "
    "independently drawn stored-sector sets; diagonal vectors may miss "
    "charges. Oracle: the numpy operation on the harness' own densification. "
    "Contract checked: returns the dense answer or raises (all call forms "
    "alike). Non-trivial: binary - the operands' stored sector sets differ; "
    "unary - the input is sparse or complex."
)
ASSUMPTIONS = [
    "numpy is the reference for every elementwise / structural operation",
    "an operation may raise instead of returning (the statement allows it); "
    "only a returned value is judged",
]
ALLSYMS = ("Z2", "U1", "Z2Z2", "U1U1", "Z4")


def three_forms(ch, method, srfn, arfn, sig):
    """Call the three forms; all must raise or all must return. Returns the
    list of returned values (empty if all raised)."""
    outs = [attempt(f) for f in (method, srfn, arfn) if f is not None]
    oks = [o for ok, o in outs if ok]
    if 0 < len(oks) < len(outs):
        bad = [repr(o)[:80] for ok, o in outs if not ok]
        raise Discrepancy(
            sig + ":forms-disagree",
            f"some call forms raise ({bad}) while others return",
        )
    if not oks:
        ch.count("raised:" + sig)
    return oks


def _legs_ref(x):
    return [dict(ix.chargemap) for ix in x.indices]


def law_unary(ch):
    import autoray as ar
    import symmray as sr

    op = ch.choice(
        ["transpose", "T", "conj", "dagger", "H", "squeeze", "expand_dims",
         "scalar", "neg", "sum", "norm", "abs", "sqrt", "isfinite",
         "transpose", "squeeze", "expand_dims"],
        "op",
    )
    kw = {}
    if op == "sqrt":
        kw = {"data": "pos", "dtype": "float64"}
    if op in ("squeeze",):
        spec = ch.draw(squeeze_specs(), "x")
    else:
        if "dtype" not in kw:
            kw["dtype"] = "any"
        spec = ch.draw(gen.array_specs(ferm=False, syms=ALLSYMS, **kw), "x")
    symm = spec["symm"]
    x = gen.build(spec)
    dx = D.dense_of(x)
    nd = x.ndim
    sig = op
    exact = True

    # inexact operations are as precise as the least precise stored block
    # (mixed-dtype arrays may hold single-precision blocks)
    eps_x = max([float(np.finfo(np.asarray(b).dtype).eps)
                 for b in x.blocks.values()
                 if np.asarray(b).dtype.kind in "fc"] or [0.0])

    def judge(res, want, want_charge=None, want_duals=None, ref=None):
        require(isinstance(res, sr.AbelianArray), sig + ":type", f"{type(res)}")
        require(type(res) is type(x), sig + ":class", f"{type(res)}")
        require_valid(res, sig + ":invalid", "result")
        if want_charge is not None:
            require(res.charge == want_charge, sig + ":charge",
                    lambda: f"{res.charge!r} != {want_charge!r}")
        if want_duals is not None:
            require(list(res.duals) == list(want_duals), sig + ":duals",
                    lambda: f"{res.duals} != {want_duals}")
        dense_equal(D.dense_of(res, ref=ref), want, sig + ":value",
                    exact=exact, what=op, eps=eps_x)

    if op in ("transpose", "T"):
        if op == "T":
            perm = tuple(range(nd - 1, -1, -1))
            outs = three_forms(ch, lambda: x.T, lambda: sr.transpose(x),
                               lambda: ar.do("transpose", x), sig)
        else:
            perm = ch.perm(nd, "perm")
            outs = three_forms(
                ch, lambda: x.transpose(perm), lambda: sr.transpose(x, perm),
                lambda: ar.do("transpose", x, perm), sig)
        require(outs, sig + ":raised", "transpose raised")
        for r in outs:
            judge(r, np.transpose(dx, perm), x.charge,
                  [x.duals[p] for p in perm],
                  ref=[_legs_ref(x)[p] for p in perm])
    elif op == "conj":
        outs = three_forms(ch, lambda: x.conj(), lambda: sr.conj(x),
                           lambda: ar.do("conj", x), sig)
        require(outs, sig + ":raised", "conj raised")
        for r in outs:
            judge(r, np.conj(dx), G.neg(symm, x.charge),
                  [not d for d in x.duals], ref=_legs_ref(x))
    elif op in ("dagger", "H"):
        f = (lambda: x.dagger()) if op == "dagger" else (lambda: x.H)
        r = must(f, what=op)
        perm = tuple(range(nd - 1, -1, -1))
        judge(r, np.conj(np.transpose(dx, perm)), G.neg(symm, x.charge),
              [not x.duals[p] for p in perm],
              ref=[_legs_ref(x)[p] for p in perm])
        r2 = must(lambda: x.conj().transpose(), what="conj.transpose")
        same_array(r, r2, sig + ":vs-conj-transpose")
    elif op == "squeeze":
        ones = [i for i, ix in enumerate(spec["idxs"])
                if sum(ix["cm"].values()) == 1]
        mode = ch.choice(["all", "some", "one", "any-axis"], "mode")
        if mode == "all" or nd == 0:
            axis = None
            outs = three_forms(ch, lambda: x.squeeze(), lambda: sr.squeeze(x),
                               lambda: ar.do("squeeze", x), sig)
            rem = ones
        else:
            if mode == "some" and ones:
                axis = tuple(ch.subset(ones, "axes", min_size=1))
            elif mode == "one" and ones:
                axis = ch.choice(ones, "axis")
            else:
                axis = ch.integer(0, nd - 1, "axis")
            outs = three_forms(
                ch, lambda: x.squeeze(axis), lambda: sr.squeeze(x, axis),
                lambda: ar.do("squeeze", x, axis), sig)
            rem = [axis] if isinstance(axis, int) else list(axis)
        for r in outs:
            ok = all(dx.shape[i] == 1 for i in rem)
            require(ok, sig + ":returned-for-big-axis",
                    f"squeezed axes {rem} of shape {dx.shape}")
            keep = [i for i in range(nd) if i not in rem]
            judge(r, np.squeeze(dx, axis=tuple(rem)), None,
                  [x.duals[i] for i in keep],
                  ref=[_legs_ref(x)[i] for i in keep])
            # the total charge must still be conserved by every sector
        ch.label(f"squeeze-mode={mode}")
    elif op == "expand_dims":
        axis = ch.integer(-(nd + 1), nd, "axis")
        pos = axis if axis >= 0 else axis + nd + 1
        if ch.boolean("explicit"):
            c = ch.choice(gen.GEN_POOLS[symm], "c")
            dual = ch.choice([None, False, True], "dual")
            r = must(lambda: x.expand_dims(axis, c=c, dual=dual),
                     what="expand_dims")
            d_eff = r.indices[pos].dual
            if dual is not None:
                require(d_eff == dual, sig + ":dual", f"{d_eff} != {dual}")
            want_charge = G.combine(symm, x.charge, G.signed(symm, c, d_eff))
            require(dict(r.indices[pos].chargemap) == {c: 1}, sig + ":newleg",
                    lambda: f"{r.indices[pos].chargemap}")
            judge(r, np.expand_dims(dx, pos), want_charge)
        else:
            outs = three_forms(
                ch, lambda: x.expand_dims(axis),
                lambda: sr.expand_dims(x, axis),
                lambda: ar.do("expand_dims", x, axis), sig)
            require(outs, sig + ":raised", "expand_dims raised")
            for r in outs:
                require(
                    dict(r.indices[pos].chargemap) == {G.identity(symm): 1},
                    sig + ":newleg", lambda: f"{r.indices[pos].chargemap}")
                judge(r, np.expand_dims(dx, pos), x.charge)
    elif op == "scalar":
        s = ch.choice([2, -3, 0.5, 2.0, (1 + 2j)], "scalar")
        how = ch.choice(["mul", "rmul", "div"], "how")
        if how == "mul":
            r, want = must(lambda: x * s, what="mul"), dx * s
        elif how == "rmul":
            r, want = must(lambda: s * x, what="rmul"), s * dx
        else:
            r, want = must(lambda: x / s, what="div"), dx / s
        exact = False
        judge(r, want, x.charge, x.duals, ref=_legs_ref(x))
    elif op == "neg":
        r = must(lambda: -x, what="neg")
        judge(r, -dx, x.charge, x.duals, ref=_legs_ref(x))
    elif op == "sum":
        if not x.blocks:
            return
        outs = three_forms(ch, lambda: x.sum(), lambda: sr.sum(x),
                           lambda: ar.do("sum", x), sig)
        require(outs, sig + ":raised", "sum raised")
        for r in outs:
            scalar_equal(r, dx.sum(), sig + ":value", what="sum")
    elif op == "norm":
        if not x.blocks:
            return
        outs = three_forms(ch, lambda: x.norm(), lambda: sr.linalg.norm(x),
                           lambda: ar.do("linalg.norm", x), sig)
        require(outs, sig + ":raised", "norm raised")
        for r in outs:
            scalar_equal(r, np.linalg.norm(dx.ravel()), sig + ":value",
                         exact=False, scale=float(np.abs(dx).max() or 1),
                         K=dx.size, what="norm", eps=eps_x)
    elif op in ("abs", "sqrt", "isfinite"):
        if not x.blocks:
            return
        npf = {"abs": np.abs, "sqrt": np.sqrt, "isfinite": np.isfinite}[op]
        outs = three_forms(ch, lambda: getattr(x, op)(),
                           lambda: getattr(sr, op)(x),
                           lambda: ar.do(op, x), sig)
        require(outs, sig + ":raised", f"{op} raised")
        exact = op != "sqrt" and not (
            op == "abs" and any(np.asarray(b).dtype.kind == "c"
                                for b in x.blocks.values()))
        for r in outs:
            want = npf(dx)
            if op == "isfinite":
                # implicit zeros are finite; compare stored blocks only
                for s_, b in r.blocks.items():
                    require(bool(np.all(np.asarray(b) == np.isfinite(
                        np.asarray(x.blocks[s_])))), sig + ":value", f"{s_}")
                continue
            judge(r, want, x.charge, x.duals, ref=_legs_ref(x))
    ch.label(f"op={op}")
    for lab in gen.spec_summary(spec):
        ch.label(lab)
    ch.mark_nontrivial(gen.is_sparse(spec) or "complex" in spec["dtype"])


@st.composite
def squeeze_specs(draw):
    """arrays with size-one axes of zero and non-zero charge"""
    symm = draw(st.sampled_from(ALLSYMS))
    nd = draw(st.integers(1, 4))
    idxs = []
    for _ in range(nd):
        kind = draw(st.sampled_from(["one0", "one0", "onec", "any"]))
        if kind == "one0":
            idxs.append({"cm": {G.identity(symm): 1},
                         "dual": draw(st.booleans())})
        elif kind == "onec":
            c = draw(st.sampled_from(gen.GEN_POOLS[symm]))
            idxs.append({"cm": {c: 1}, "dual": draw(st.booleans())})
        else:
            idxs.append(draw(gen.index_specs(symm)))
    return draw(gen.array_specs(symm=symm, ferm=False, idxs=idxs))


# ----------------------------------------------------------------- binary ---


@st.composite
def same_leg_pairs(draw, ferm=False, syms=ALLSYMS, max_ndim=3, data=None):
    a = draw(gen.array_specs(ferm=ferm, syms=syms, max_ndim=max_ndim,
                             min_ndim=draw(st.sampled_from([0, 1, 2, 2, 2])),
                             allow_empty=False, data=data))
    b = draw(
        gen.array_specs(symm=a["symm"], ferm=ferm, idxs=a["idxs"],
                        charge=a["charge"], dyn=a["dyn"], dtype=a["dtype"],
                        label=a.get("oddpos"), data=data,
                        sparsity=draw(st.sampled_from(
                            ["sparse", "sparse", "single", None])))
    )
    return {"a": a, "b": b}


def law_binary(ch):
    import symmray as sr

    pair = ch.draw(same_leg_pairs(), "pair")
    sa, sb = pair["a"], pair["b"]
    a, b = gen.build(sa), gen.build(sb)
    da, db = D.dense_of(a), D.dense_of(b)
    op = ch.choice(["add", "sub", "mul", "add", "mul"], "op")
    fn = {"add": operator.add, "sub": operator.sub, "mul": operator.mul}[op]
    ok, r = attempt(fn, a, b)
    differ = set(map(tuple, sa["sectors"])) != set(map(tuple, sb["sectors"]))
    if not ok:
        require(op == "sub" or not a.blocks or not b.blocks,
                f"{op}:raised",
                f"{op} raised {type(r).__name__}: {r}")
        ch.count("raised:" + op)
    else:
        require(isinstance(r, sr.AbelianArray), op + ":type", f"{type(r)}")
        require_valid(r, op + ":invalid", "result")
        require(r.charge == a.charge, op + ":charge", f"{r.charge!r}")
        require(list(r.duals) == list(a.duals), op + ":duals", "")
        dense_equal(D.dense_of(r, ref=_legs_ref(a)), fn(da, db),
                    op + ":value", what=f"a {op} b")
        if op in ("add", "mul"):
            r2 = must(fn, b, a, what=op)
            dense_equal(D.dense_of(r2, ref=_legs_ref(a)), fn(db, da),
                        op + ":commuted", what=f"b {op} a")
    # the augmented form (a += b, a -= b, a *= b) on a fresh copy of a: it
    # either gives the block form of the dense result or raises
    ifn = {"add": operator.iadd, "sub": operator.isub,
           "mul": operator.imul}[op]
    t = gen.build(sa)
    ok2, r = attempt(ifn, t, b)
    if ok2:
        require(isinstance(r, sr.AbelianArray), f"i{op}:type", f"{type(r)}")
        require_valid(r, f"i{op}:invalid", "result")
        require(r.charge == a.charge, f"i{op}:charge", f"{r.charge!r}")
        dense_equal(D.dense_of(r, ref=_legs_ref(a)), fn(da, db),
                    f"i{op}:value", what=f"a {op}= b")
        ch.count("inplace-ok:" + op)
    else:
        ch.count("inplace-raised:" + op)
    ch.label(f"op={op}")
    ch.label("sectors-differ" if differ else "sectors-equal")
    ch.mark_nontrivial(differ)


def law_allclose(ch):
    """allclose(x, y) is the dense comparison (a missing block is a block of
    zeros); integer-valued data, so no pair sits near the tolerance"""
    import symmray as sr

    pair = ch.draw(same_leg_pairs(data="int"), "pair")
    a, b = gen.build(pair["a"]), gen.build(pair["b"])
    if not a.blocks:
        return
    ref = _legs_ref(a)
    variant = ch.choice(["pair", "copy", "perturbed", "perturbed",
                         "zero-blocks", "dropped-block", "scaled"], "variant")
    if variant == "pair":
        y = b
    elif variant == "copy":
        y = a.copy()
    elif variant == "perturbed":
        y = a.copy()
        secs = sorted(y.blocks)
        sec = secs[ch.integer(0, len(secs) - 1, "sector")]
        blk = np.array(y.blocks[sec])
        if blk.size == 0:
            return
        flat = blk.reshape(-1)
        flat[ch.integer(0, flat.size - 1, "element") % flat.size] += 1
        y.blocks[sec] = flat.reshape(blk.shape)
    elif variant == "zero-blocks":
        y = a.copy()
        must(y.fill_missing_blocks, what="fill_missing_blocks")
        # documented: every valid sector is stored afterwards
        valid = {tuple(s_) for s_ in gen.spec_valid_sectors(
            pair["a"]["symm"], pair["a"]["idxs"], pair["a"]["charge"])}
        require(set(y.blocks) == valid, "fill_missing_blocks:sectors",
                lambda: f"{len(y.blocks)} stored sectors, {len(valid)} valid")
        require_valid(y, "fill_missing_blocks:invalid", "filled array")
    elif variant == "dropped-block":
        y = a.copy()
        secs = sorted(y.blocks)
        del y.blocks[secs[ch.integer(0, len(secs) - 1, "sector")]]
    else:
        y = a * 2
    da, dy = D.dense_of(a, ref=ref), D.dense_of(y, ref=ref)
    want = bool(np.allclose(da, dy))
    for (p, q, tag) in ((a, y, "x.allclose(y)"), (y, a, "y.allclose(x)")):
        got = must(p.allclose, q, what="allclose")
        require(bool(got) == want, "allclose:verdict",
                lambda: f"{tag} = {got!r}, dense comparison says {want} "
                        f"(variant {variant}, max |diff| "
                        f"{np.abs(da - dy).max() if da.size else 0})")
    ch.label(f"variant={variant}")
    ch.label(f"equal={want}")
    ch.mark_nontrivial(variant != "copy")


@st.composite
def diag_cases(draw):
    spec = draw(gen.array_specs(ferm=False, syms=ALLSYMS, min_ndim=1,
                                allow_empty=False))
    axis = draw(st.integers(0, len(spec["idxs"]) - 1))
    cm = spec["idxs"][axis]["cm"]
    charges = sorted(cm)
    mask = draw(st.lists(st.booleans(), min_size=len(charges),
                         max_size=len(charges)))
    if draw(st.integers(0, 2)) == 0:
        mask = [True] * len(charges)
    keep = [c for c, m in zip(charges, mask) if m]
    return {"x": spec, "axis": axis, "vcharges": keep,
            "vseed": draw(st.integers(0, 2**16)),
            "vcomplex": draw(st.booleans())}


def law_multiply_diagonal(ch):
    import autoray as ar
    import symmray as sr

    case = ch.draw(diag_cases(), "case")
    spec, axis = case["x"], case["axis"]
    x = gen.build(spec)
    cm = spec["idxs"][axis]["cm"]
    rng = np.random.default_rng(case["vseed"])
    vb = {}
    for c in case["vcharges"]:
        v = rng.integers(-3, 4, size=cm[c]).astype("float64")
        if case["vcomplex"]:
            v = v + 1j * rng.integers(-3, 4, size=cm[c])
        vb[c] = v
    v = sr.BlockVector(vb)
    offs, n = D.offsets(cm)
    dv = np.zeros(n, dtype=complex if case["vcomplex"] else float)
    for c, blk in vb.items():
        dv[offs[c][0]:offs[c][0] + offs[c][1]] = blk
    dx = D.dense_of(x)
    shape = [1] * x.ndim
    shape[axis] = n
    want = dx * dv.reshape(shape)
    ax_arg = axis - x.ndim if ch.boolean("negaxis") and False else axis
    outs = three_forms(
        ch, lambda: x.multiply_diagonal(v, ax_arg),
        lambda: sr.multiply_diagonal(x, v, ax_arg),
        lambda: ar.do("multiply_diagonal", x, v, ax_arg), "multiply_diagonal")
    require(outs, "multiply_diagonal:raised", "raised on matching vector")
    for r in outs:
        require_valid(r, "multiply_diagonal:invalid", "result")
        require(r.charge == x.charge, "multiply_diagonal:charge", "")
        dense_equal(D.dense_of(r, ref=_legs_ref(x)), want,
                    "multiply_diagonal:value", what="multiply_diagonal")
    missing = len(case["vcharges"]) < len(cm)
    ch.label("vector-missing-charges" if missing else "vector-complete")
    ch.mark_nontrivial(missing or gen.is_sparse(spec))


# ---------------------------------------------------------------- vectors ---


@st.composite
def vector_specs(draw, positive=False, keys=None):
    if keys is None:
        pool = draw(st.sampled_from(
            [[0, 1], [-1, 0, 1, 2], [(0, 0), (0, 1), (1, 0)], [0, 1, 2, 3]]))
        keys = draw(st.lists(st.sampled_from(pool), min_size=1,
                             max_size=len(pool), unique=True))
    sizes = {k: draw(st.integers(1, 3)) for k in keys}
    return {
        "sizes": sizes,
        "seed": draw(st.integers(0, 2**16)),
        "complex": False if positive else draw(st.booleans()),
        "positive": positive,
    }


def build_vector(vs, sizes=None):
    import symmray as sr

    rng = np.random.default_rng(vs["seed"])
    blocks = {}
    for k, d in vs["sizes"].items():
        d = (sizes or {}).get(k, d)
        if vs["positive"]:
            b = rng.integers(1, 6, size=d).astype("float64")
        else:
            b = rng.integers(-4, 5, size=d).astype("float64")
            if vs["complex"]:
                b = b + 1j * rng.integers(-4, 5, size=d)
        blocks[k] = b
    return sr.BlockVector(blocks)


def vec_dict(v):
    return {k: np.asarray(b) for k, b in v.blocks.items()}


def judge_vec(res, want, sig, exact=True):
    """want: dict key -> expected block; a key may be missing from the result
    only if its expected block is all zero."""
    import symmray as sr

    require(isinstance(res, sr.BlockVector), sig + ":type", f"{type(res)}")
    got = vec_dict(res)
    for k in set(got) | set(want):
        if k not in want:
            raise Discrepancy(sig + ":extra-block", f"block {k!r} invented")
        if k not in got:
            if np.any(want[k] != 0):
                raise Discrepancy(
                    sig + ":value", f"block {k!r} missing, expected {want[k]}")
            continue
        require(got[k].ndim == 1, sig + ":ndim", f"{k!r}")
        with np.errstate(all="ignore"):
            dense_equal(got[k], want[k], sig + ":value", exact=exact,
                        what=f"block {k!r}")


def law_vector_unary(ch):
    import autoray as ar
    import symmray as sr

    fn = ch.choice(
        ["abs", "sqrt", "log", "log2", "log10", "clip", "isfinite", "neg",
         "max", "min", "sum", "all", "any", "norm"], "fn")
    positive = fn in ("sqrt", "log", "log2", "log10")
    vs = ch.draw(vector_specs(positive=positive), "v")
    v = build_vector(vs)
    dv = vec_dict(v)
    sig = "vec." + fn
    if fn in ("abs", "sqrt", "log", "log2", "log10", "isfinite"):
        outs = three_forms(ch, lambda: getattr(v, fn)(),
                           lambda: getattr(sr, fn)(v),
                           lambda: ar.do(fn, v), sig)
        require(outs, sig + ":raised", f"{fn} raised on a valid vector")
        want = {k: getattr(np, fn)(b) for k, b in dv.items()}
        for r in outs:
            judge_vec(r, want, sig, exact=fn in ("abs", "isfinite"))
    elif fn == "clip":
        lo = ch.integer(-3, 1, "lo")
        hi = ch.integer(lo, 4, "hi")
        if vs["complex"]:
            return
        outs = three_forms(ch, lambda: v.clip(lo, hi),
                           lambda: sr.clip(v, lo, hi),
                           lambda: ar.do("clip", v, lo, hi), sig)
        require(outs, sig + ":raised", "clip raised")
        want = {k: np.clip(b, lo, hi) for k, b in dv.items()}
        for r in outs:
            judge_vec(r, want, sig)
    elif fn == "neg":
        judge_vec(must(lambda: -v, what="neg"),
                  {k: -b for k, b in dv.items()}, sig)
    else:
        cat = np.concatenate([dv[k] for k in dv])
        if fn in ("max", "min") and vs["complex"]:
            return
        if fn in ("all", "any"):
            v = must(lambda: v.isfinite() if ch.boolean("finite") else
                     sr.BlockVector({k: b != 0 for k, b in dv.items()}))
            cat = np.concatenate([np.asarray(b) for b in v.blocks.values()])
        if fn == "norm":
            outs = three_forms(ch, lambda: v.norm(),
                               lambda: sr.linalg.norm(v),
                               lambda: ar.do("linalg.norm", v), sig)
        else:
            outs = three_forms(ch, lambda: getattr(v, fn)(),
                               lambda: getattr(sr, fn)(v),
                               lambda: ar.do(fn, v), sig)
        require(outs, sig + ":raised", f"{fn} raised")
        want = {"max": np.max, "min": np.min, "sum": np.sum, "all": np.all,
                "any": np.any, "norm": np.linalg.norm}[fn](cat)
        for r in outs:
            scalar_equal(r, want, sig + ":value", exact=fn != "norm",
                         scale=float(np.abs(cat).max() or 1), K=cat.size,
                         what=fn)
    ch.label(f"fn={fn}")
    ch.mark_nontrivial(len(dv) >= 2 or vs["complex"])


VEC_BIN = {
    "add": operator.add, "sub": operator.sub, "mul": operator.mul,
    "div": operator.truediv, "pow": operator.pow,
}
VEC_IBIN = {
    "add": operator.iadd, "sub": operator.isub, "mul": operator.imul,
    "div": operator.itruediv, "pow": operator.ipow,
}


def law_vector_binary(ch):
    import symmray as sr

    op = ch.choice(list(VEC_BIN), "op")
    fn = VEC_BIN[op]
    kind = ch.choice(["vec", "vec", "scalar", "rscalar"], "kind")
    positive = op in ("div", "pow")
    va = ch.draw(vector_specs(positive=positive), "a")
    a = build_vector(va)
    da = vec_dict(a)
    sig = f"vec.{op}.{kind}"
    inplace = ch.boolean("inplace") and kind != "rscalar"
    if kind == "vec":
        # partner: a drawn subset of a's keys plus possibly new keys of
        # matching sizes
        keys = list(da)
        keep = ch.subset(keys, "keys-b")
        extra = ch.boolean("extra-key")
        vb = ch.draw(vector_specs(positive=positive, keys=keep or keys[:1]),
                     "b")
        b = build_vector(vb, sizes={k: da[k].size for k in da})
        if extra:
            b.blocks["zz" if isinstance(keys[0], str) else 99] = np.ones(2)
        db = vec_dict(b)
        differ = set(da) != set(db)
        target = build_vector(va) if inplace else a
        snap_b = {k: v.copy() for k, v in db.items()}
        snap_a = {k: v.copy() for k, v in da.items()}
        ok, r = attempt((VEC_IBIN if inplace else VEC_BIN)[op], target, b)
        for k, v in snap_b.items():
            require(k in b.blocks and np.array_equal(np.asarray(b.blocks[k]), v)
                    and len(b.blocks) == len(snap_b),
                    sig + ":right-operand-modified", f"block {k!r}")
        for k, v in snap_a.items():
            require(k in a.blocks and np.array_equal(np.asarray(a.blocks[k]), v)
                    and len(a.blocks) == len(snap_a),
                    sig + ":left-operand-modified", f"block {k!r}")
        if not ok:
            require(
                differ, sig + ":raised",
                f"raised {type(r).__name__}: {r} on equal key sets")
            ch.count("raised:" + sig)
        else:
            want = {}
            for k in set(da) | set(db):
                x = da.get(k)
                y = db.get(k)
                if x is None:
                    x = np.zeros_like(y)
                if y is None:
                    y = np.zeros_like(x)
                with np.errstate(all="ignore"):
                    want[k] = fn(x, y)
            if differ and op in ("div", "pow", "sub"):
                # implicit zeros: x/0, 0/x, x**0 ... only judge shared keys
                # and require that nothing else is invented
                got = vec_dict(r)
                for k in got:
                    require(k in want, sig + ":extra-block", f"{k!r}")
                    if k in da and k in db:
                        dense_equal(got[k], want[k], sig + ":value",
                                    exact=False, what=f"block {k!r}")
            else:
                judge_vec(r, want, sig, exact=op not in ("div", "pow"))
            if inplace:
                require(r is target, sig + ":inplace-identity",
                        "in-place form returned a different object")
        ch.mark_nontrivial(differ)
        ch.label("keys-differ" if differ else "keys-equal")
    else:
        s = ch.choice([2, 3, 0.5, -1.0], "scalar")
        if op == "pow" and s < 0 or (op == "pow" and kind == "rscalar" and s <= 0):
            s = 2
        if kind == "scalar":
            target = build_vector(va) if inplace else a
            r = must((VEC_IBIN if inplace else VEC_BIN)[op], target, s,
                     what=sig)
            want = {k: fn(x, s) for k, x in da.items()}
            if inplace:
                require(r is target, sig + ":inplace-identity", "")
        else:
            r = must(fn, s, a, what=sig)
            want = {k: fn(s, x) for k, x in da.items()}
        judge_vec(r, want, sig, exact=op in ("add", "sub", "mul"))
        ch.mark_nontrivial(len(da) >= 2)
    ch.label(f"op={op}/{kind}" + ("/inplace" if inplace else ""))


# ------------------------------------------------------ operation chains ----


def mixed_dtype(x):
    return len({np.asarray(b).dtype for b in x.blocks.values()}) > 1


def idx_specs_of(x):
    return [{"cm": dict(ix.chargemap), "dual": bool(ix.dual)}
            for ix in x.indices]


def law_chain(ch):
    """A drawn sequence of operations applied to an array and, in parallel,
    to its dense shadow; equality is required after every step (so defects
    that need an earlier operation to set the stage are reachable)."""
    import symmray as sr

    spec = ch.draw(gen.array_specs(ferm=False, syms=ALLSYMS, min_ndim=1,
                                   max_ndim=3, allow_empty=False,
                                   dtype="any"), "x")
    symm = spec["symm"]
    x = gen.build(spec)
    dx = D.dense_of(x)
    ref = _legs_ref(x)
    nsteps = ch.integer(2, 6, "nsteps")
    done = []
    for step in range(nsteps):
        nd = x.ndim
        ops = ["conj", "neg", "scalar", "add", "add", "mul", "dagger"]
        if nd >= 1:
            ops += ["transpose", "diag", "expand", "tensordot", "sub-zero"]
        if nd < 4:
            ops += ["expand"]
        if any(d == 1 for d in dx.shape) and tuple(x.shape) == dx.shape:
            # (only while the result's own tables are complete: a table that
            # lost charges changes which axes have size one)
            ops += ["squeeze"]
        op = ch.choice(ops, f"op{step}")
        sig = f"chain:{op}"
        if not x.blocks and op in ("tensordot", "diag"):
            continue
        if op == "conj":
            x, dx = must(x.conj, what=sig), np.conj(dx)
        elif op == "dagger":
            perm = tuple(range(nd - 1, -1, -1))
            x, dx = must(x.dagger, what=sig), np.conj(np.transpose(dx, perm))
            ref = [ref[p] for p in perm]
        elif op == "transpose":
            perm = ch.perm(nd, f"perm{step}")
            x, dx = must(x.transpose, perm, what=sig), np.transpose(dx, perm)
            ref = [ref[p] for p in perm]
        elif op == "neg":
            x, dx = must(lambda: -x, what=sig), -dx
        elif op == "scalar":
            sc = ch.choice([2, -1, 2.0, 1j, 0.5], f"s{step}")
            x, dx = must(lambda: x * sc, what=sig), dx * sc
        elif op in ("add", "mul"):
            ps = ch.draw(
                gen.array_specs(symm=symm, ferm=False, idxs=idx_specs_of(x),
                                charge=x.charge, dyn=spec["dyn"]),
                f"partner{step}")
            y = gen.build(ps)
            # embed the partner into the reference tables
            dy = D.dense_of(y, ref=ref)
            swap = ch.boolean(f"swap{step}")
            f = operator.add if op == "add" else operator.mul
            x = must(f, y, x, what=sig) if swap else must(f, x, y, what=sig)
            dx = f(dy, dx) if swap else f(dx, dy)
        elif op == "sub-zero":
            # x - x.copy(): sector sets agree, must be the zero tensor
            x, dx = must(lambda: x - x.copy(), what=sig), dx - dx
        elif op == "diag":
            axis = ch.integer(0, nd - 1, f"axis{step}")
            cm = dict(x.indices[axis].chargemap)
            keep = ch.subset(sorted(cm), f"vkeys{step}")
            rng = np.random.default_rng(ch.integer(0, 999, f"vseed{step}"))
            vb = {c: rng.integers(-2, 3, size=cm[c]).astype("float64")
                  for c in keep}
            offs, n = D.offsets(ref[axis])
            dv = np.zeros(n)
            for c, b in vb.items():
                dv[offs[c][0]:offs[c][0] + offs[c][1]] = b
            shape = [1] * nd
            shape[axis] = n
            x = must(x.multiply_diagonal, sr.BlockVector(vb), axis, what=sig)
            dx = dx * dv.reshape(shape)
        elif op == "expand":
            axis = ch.integer(0, nd, f"axis{step}")
            x = must(x.expand_dims, axis, what=sig)
            dx = np.expand_dims(dx, axis)
            ref = ref[:axis] + [{G.identity(symm): 1}] + ref[axis:]
        elif op == "squeeze":
            ok, r = attempt(x.squeeze)
            if not ok:
                continue
            rem = [i for i in range(nd) if dx.shape[i] == 1]
            x, dx = r, np.squeeze(dx, axis=tuple(rem))
            ref = [r_ for i, r_ in enumerate(ref) if i not in rem]
        elif op == "tensordot":
            ncon = ch.integer(1, min(2, nd), f"ncon{step}")
            axes_a = list(ch.perm(nd, f"axa{step}")[:ncon])
            nfree = ch.integer(0, 2, f"nfree{step}")
            legs = [gen.conj_index_spec(idx_specs_of(x)[a]) for a in axes_a]
            for k in range(nfree):
                legs.append(ch.draw(gen.index_specs(symm), f"free{step}.{k}"))
            order = list(ch.perm(len(legs), f"order{step}"))
            legs = [legs[i] for i in order]
            axes_b = [order.index(k) for k in range(ncon)]
            ps = ch.draw(
                gen.array_specs(symm=symm, ferm=False, idxs=legs,
                                dyn=spec["dyn"]), f"partner{step}")
            y = gen.build(ps)
            # dense of y with contracted legs embedded in x's reference
            yref = [dict(l["cm"]) for l in legs]
            for k, a in enumerate(axes_a):
                yref[axes_b[k]] = ref[a]
            dy = D.dense_of(y, ref=yref)
            mode = ch.choice(["auto", "fused", "blockwise"], f"mode{step}")
            if mixed_dtype(x) or mixed_dtype(y):
                ch.count("mixed-dtype-contraction")
            x = must(sr.tensordot, x, y, (axes_a, axes_b), mode=mode,
                     preserve_array=True, what=sig)
            dx = np.tensordot(dx, dy, axes=(axes_a, axes_b))
            ref = [ref[i] for i in range(nd) if i not in axes_a] + [
                yref[i] for i in range(len(legs)) if i not in axes_b]
        require_valid(x, sig + ":invalid", f"after {done + [op]}")
        got = D.dense_of(x, ref=ref)
        dense_equal(got, dx, sig + ":value", exact=True,
                    what=f"after {done + [op]}")
        done.append(op)
    ch.label(f"len={len(done)}")
    for o in set(done):
        ch.label(f"has={o}")
    ch.mark_nontrivial(len(done) >= 2)


LAWS = [
    Law("array_unary", law_unary, quick=3000, thorough=40000,
        doc="transpose/conj/dagger/squeeze/expand_dims/scalar ops/neg/sum/"
            "norm/abs/sqrt == numpy on the dense form; three call forms agree"),
    Law("array_binary", law_binary, quick=1200, thorough=16000,
        doc="+ (union), - (or raises), elementwise * (commutative) == dense; "
            "augmented forms += -= *= on a fresh copy == dense, or raise"),
    Law("allclose", law_allclose, quick=800, thorough=10000,
        doc="allclose(x, y) == numpy.allclose on the dense forms, both "
            "orders (differing element, missing / explicit zero blocks)"),
    Law("multiply_diagonal", law_multiply_diagonal, quick=800, thorough=10000,
        doc="multiply_diagonal with vectors missing charges == dense"),
    Law("vector_unary", law_vector_unary, quick=800, thorough=10000,
        doc="block-vector elementwise functions and reductions == numpy"),
    Law("chain", law_chain, quick=2000, thorough=30000,
        doc="drawn sequences of 2-6 operations (structural, arithmetic with "
            "generated partners, diagonal multiply, contraction) tracked "
            "against a dense shadow after every step"),
    Law("vector_binary", law_vector_binary, quick=1200, thorough=16000,
        doc="block-vector arithmetic with vectors/scalars, both sides, "
            "in-place forms == numpy (missing block = zeros)"),
]

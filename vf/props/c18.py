"""C18 — local fermionic operator arrays reproduce the second-quantised
operator."""

import itertools
import warnings

import numpy as np

from ..compare import dense_equal
from ..core import Discrepancy, Law, must, require
from ..model import groups as G
from ..model.fock import Fock

PROPERTY_ID = "C18"
RULE = (
    "Hypothesis-generated local operators: 1-3 sites, 1-2 modes per site "
    "(<=5 modes), local bases = drawn subsets / orderings of occupation "
    "states with drawn operator order inside a state, 1-4 terms with integer "
    "coefficients and operator strings of length 0-6 given as operator "
    "objects or (label, '+'/'-') pairs. Oracle: Jordan-Wigner matrices on "
    "Fock space (vf/model/fock.py; the mode order of the representation is "
    "drawn, results must not depend on it). Laws: (1) "
    "build_local_fermionic_elements == vacuum expectation values; (2) "
    "build_local_fermionic_array densified through the labeling == the same "
    "elements (all four symmetries, drawn odd charge per mode, charge-"
    "conserving terms, complete bases); (3) action on basis states of every "
    "total charge by contraction: M = S H S with ONE diagonal sign matrix S "
    "shared by all operators on the same bases (2-colouring), Hermitian term "
    "sets give Hermitian maps with the exact spectrum, M_A M_B = M_AB; (4) "
    "the built-in Hubbard / number / spin arrays == the documented formulas "
    "incl. division of on-site terms by the coordinations. Non-trivial: >=1 "
    "term of length >=3 touching >=2 modes (and for (3) a two-mode site)."
)
ASSUMPTIONS = [
    "documented element convention: <i'|<j'|... term |i>|j>... with the bra "
    "basis the per-site dagger, sites not reversed",
]
SYMS = ("Z2", "U1", "Z2Z2", "U1U1")


def FO(label, dag):
    import symmray as sr

    return sr.FermionicOperator(label, dag)


def draw_sites(ch, max_modes=5):
    nsites = ch.integer(1, 3, "nsites")
    labels = iter("abcdefgh")
    sites = []
    total = 0
    for s in range(nsites):
        k = ch.integer(1, 2, f"nmodes{s}")
        if total + k > max_modes:
            k = 1
        total += k
        sites.append([next(labels) for _ in range(k)])
    return sites


def draw_basis(ch, modes, tag, complete):
    occs = [c for r in range(len(modes) + 1)
            for c in itertools.combinations(modes, r)]
    order = list(ch.perm(len(occs), tag + ".order"))
    k = len(occs) if complete else ch.integer(1, len(occs), tag + ".k")
    basis = []
    for i in order[:k]:
        occ = occs[i]
        p = ch.perm(len(occ), f"{tag}.in{i}") if len(occ) > 1 else range(len(occ))
        basis.append(tuple((occ[j], True) for j in p))
    return basis


def to_ops(seq, form):
    if form == "objects":
        return tuple(FO(l, d) for l, d in seq)
    return tuple((l, "+" if d else "-") for l, d in seq)


def oracle_elements(F, terms, bases):
    exp = {}
    for outs in itertools.product(*[range(len(b)) for b in bases]):
        left = []
        for s, i in enumerate(outs):
            left += [(l, not d) for (l, d) in reversed(bases[s][i])]
        L = F.string(left)
        for ins in itertools.product(*[range(len(b)) for b in bases]):
            right = []
            for s, i in enumerate(ins):
                right += list(bases[s][i])
            R = F.string(right) @ F.vac
            val = 0.0
            for c, ops in terms:
                val += c * (F.vac @ (L @ F.string(ops) @ R))
            if val != 0:
                exp[(*outs, *ins)] = val
    return exp


def law_elements(ch):
    import symmray as sr

    sites = draw_sites(ch)
    allmodes = [m for ms in sites for m in ms]
    F = Fock([allmodes[i] for i in ch.perm(len(allmodes), "jw-order")])
    bases = [draw_basis(ch, ms, f"b{s}", complete=False)
             for s, ms in enumerate(sites)]
    nterms = ch.integer(1, 4, "nterms")
    terms = []
    for t in range(nterms):
        L = ch.integer(0, 6, f"len{t}")
        ops = [(ch.choice(allmodes, f"t{t}.m{k}"), ch.boolean(f"t{t}.d{k}"))
               for k in range(L)]
        c = float(ch.choice([-3, -2, -1, 1, 2, 3], f"coef{t}"))
        terms.append((c, ops))
    form = ch.choice(["objects", "pairs"], "form")
    sterms = [(c, to_ops(o, form)) for c, o in terms]
    sbases = [[to_ops(st_, form) for st_ in b] for b in bases]
    got = must(sr.build_local_fermionic_elements, sterms, sbases,
               what="build_local_fermionic_elements")
    exp = oracle_elements(F, terms, bases)
    g = {k: v for k, v in got.items() if v != 0}
    if g != exp:
        keys = [k for k in set(g) | set(exp) if g.get(k) != exp.get(k)]
        raise Discrepancy(
            "elements:value",
            f"{len(keys)} elements differ, e.g. index {keys[0]}: got "
            f"{g.get(keys[0])}, Fock space gives {exp.get(keys[0])}; terms "
            f"{terms}, bases {bases}")
    long_multi = any(len(o) >= 3 and len({l for l, _ in o}) >= 2
                     for _, o in terms)
    ch.label(f"nsites={len(sites)}")
    ch.mark_nontrivial(long_multi)


# ------------------------------------------------------------ array level ---


def mode_charge(ch, symm, tag):
    if symm == "Z2":
        return 1
    if symm == "U1":
        return ch.choice([1, -1, 3], tag)
    if symm == "Z2Z2":
        return ch.choice([(1, 0), (0, 1)], tag)
    return ch.choice([(1, 0), (0, 1), (-1, 0), (0, -1)], tag)


def orig_order_dense(Gx, maps):
    """dense array of a symmray array indexed by the ORIGINAL linear basis
    indices of each leg (stable charge order is undone)"""
    from ..model import dense as D

    dims = [len(m) for m in maps]
    od = D.dense_of(Gx)
    order = [sorted(range(d), key=lambda i: (m[i], i))
             for d, m in zip(dims, maps)]
    full = np.zeros(dims, dtype=od.dtype)
    sl = [[k for k in order[s] if maps[s][k] in Gx.indices[s].chargemap]
          for s in range(len(dims))]
    for s in range(len(dims)):
        # each leg's table must be the documented charge map of its basis:
        # size of charge c == number of basis states labelled c
        cm = dict(Gx.indices[s].chargemap)
        want = {c: sum(1 for v in maps[s] if v == c) for c in cm}
        require(cm == want and set(cm) <= set(maps[s]), "charge-map",
                lambda: f"leg {s}: index table {cm} but the basis is "
                        f"labelled {list(maps[s])}")
    if od.size:
        full[np.ix_(*sl)] = od
    return full


def conserving_term(ch, symm, allmodes, mc, tag):
    for attempt_ in range(6):
        ncre = ch.integer(0, 3, f"{tag}.ncre{attempt_}")
        nann = ch.integer(0, 3, f"{tag}.nann{attempt_}")
        cre = [ch.choice(allmodes, f"{tag}.c{attempt_}.{k}") for k in range(ncre)]
        ann = [ch.choice(allmodes, f"{tag}.a{attempt_}.{k}") for k in range(nann)]
        if G.combine(symm, *[mc[m] for m in cre]) == G.combine(
                symm, *[mc[m] for m in ann]):
            ops = [(m, True) for m in cre] + [(m, False) for m in ann]
            p = ch.perm(len(ops), f"{tag}.order{attempt_}") if len(ops) <= 5 \
                else range(len(ops))
            return [ops[i] for i in p]
    m = ch.choice(allmodes, tag + ".fallback")
    return [(m, True), (m, False)]


def law_action(ch):
    import symmray as sr

    warnings.simplefilter("ignore")
    symm = ch.choice(SYMS, "symm")
    sites = draw_sites(ch, max_modes=4)
    allmodes = [m for ms in sites for m in ms]
    mc = {m: mode_charge(ch, symm, f"charge-{m}") for m in allmodes}
    F = Fock([allmodes[i] for i in ch.perm(len(allmodes), "jw-order")])
    bases = [draw_basis(ch, ms, f"b{s}", complete=True)
             for s, ms in enumerate(sites)]
    maps = [[G.combine(symm, *[mc[l] for l, _ in st_]) for st_ in b]
            for b in bases]
    ns = len(sites)
    cls = {"Z2": sr.Z2FermionicArray, "U1": sr.U1FermionicArray,
           "Z2Z2": sr.Z2Z2FermionicArray, "U1U1": sr.U1U1FermionicArray}[symm]
    keys = list(itertools.product(*[range(len(b)) for b in bases]))
    kets = []
    for ins in keys:
        ops = []
        for s, i in enumerate(ins):
            ops += list(bases[s][i])
        kets.append(F.string(ops) @ F.vac)
    K = np.array(kets).T

    def fock_matrix(terms):
        O = sum(c * F.string(ops) for c, ops in terms)
        return K.T @ O @ K

    dims = [len(b) for b in bases]

    def applied_matrix(Gx):
        M = np.zeros((len(keys), len(keys)))
        for col, ins in enumerate(keys):
            dense = np.zeros(dims)
            dense[ins] = 1.0
            q = G.combine(symm, *[maps[s][i] for s, i in enumerate(ins)])
            psi = must(cls.from_dense, dense, maps, [False] * ns, charge=q,
                       oddpos="p", what="from_dense")
            out = must(sr.tensordot, Gx, psi,
                       (tuple(range(ns, 2 * ns)), tuple(range(ns))),
                       preserve_array=True, what="tensordot")
            full = orig_order_dense(out, maps) if out.blocks else np.zeros(dims)
            for row, outs in enumerate(keys):
                M[row, col] = full[outs]
        return M

    term_sets = []
    for k in range(3):
        base = [(float(ch.choice([-3, -2, -1, 1, 2, 3], f"s{k}.coef{j}")),
                 conserving_term(ch, symm, allmodes, mc, f"s{k}.t{j}"))
                for j in range(ch.integer(1, 3, f"s{k}.n"))]
        herm = base + [(c, [(l, not d) for (l, d) in reversed(ops)])
                       for c, ops in base]
        term_sets.append(herm)
    Ms, Hs = [], []
    for terms in term_sets:
        sterms = [(c, tuple(FO(l, d) for l, d in ops)) for c, ops in terms]
        Gx = must(sr.build_local_fermionic_array, sterms, bases_objs(bases),
                  symm, maps, what="build_local_fermionic_array")
        # (2) the array densified through the labeling == oracle elements
        exp = oracle_elements(F, terms, bases)
        full = orig_order_dense(Gx, maps * 2)
        want = np.zeros(dims * 2)
        for idx, v in exp.items():
            want[idx] = v
        dense_equal(full, want, "array:elements", exact=True,
                    what="build_local_fermionic_array")
        require(list(Gx.duals) == [False] * ns + [True] * ns, "array:duals",
                f"{Gx.duals}")
        H = fock_matrix(terms)
        M = applied_matrix(Gx)
        Ms.append(M)
        Hs.append(H)
        require(np.allclose(np.abs(M), np.abs(H), atol=1e-9),
                "action:magnitudes",
                lambda: f"|M| != |H| for terms {terms} bases {bases}")
        require(np.allclose(M, M.T, atol=1e-9), "action:not-hermitian",
                lambda: f"terms {terms}")
        require(np.allclose(np.linalg.eigvalsh((M + M.T) / 2),
                            np.linalg.eigvalsh(H), atol=1e-8),
                "action:spectrum", lambda: f"terms {terms}")
    # one common sign gauge S (2-colouring over all operators)
    N = len(keys)
    parent = list(range(N))
    par = [0] * N

    def find(i):
        if parent[i] == i:
            return i, 0
        r, p = find(parent[i])
        parent[i] = r
        par[i] ^= p
        return r, par[i]

    for M, H in zip(Ms, Hs):
        for i in range(N):
            for j in range(N):
                if abs(H[i, j]) > 1e-12:
                    s_ = 0 if M[i, j] * H[i, j] > 0 else 1
                    (ri, pi), (rj, pj) = find(i), find(j)
                    if ri == rj:
                        require((pi ^ pj) == s_, "action:no-common-sign-gauge",
                                lambda: f"bases {bases}, term sets {term_sets}")
                    else:
                        parent[ri] = rj
                        par[ri] = pi ^ pj ^ s_
    # product law
    A, B = term_sets[0], term_sets[1]
    prod = [(ca * cb, oa + ob) for ca, oa in A for cb, ob in B]
    if max(len(o) for _, o in prod) <= 8:
        sprod = [(c, tuple(FO(l, d) for l, d in ops)) for c, ops in prod]
        Gp = must(sr.build_local_fermionic_array, sprod, bases_objs(bases),
                  symm, maps, what="build_local_fermionic_array(product)")
        Mp = applied_matrix(Gp)
        require(np.allclose(Mp, Ms[0] @ Ms[1], atol=1e-8), "action:product",
                lambda: f"M_A M_B != M_AB for {A} , {B}")
    two_mode_site = any(len(ms) == 2 for ms in sites)
    long_multi = any(len(o) >= 3 and len({l for l, _ in o}) >= 2
                     for ts in term_sets for _, o in ts)
    ch.label(f"symm={symm}")
    ch.label(f"nsites={ns}")
    ch.mark_nontrivial(two_mode_site and long_multi)


def bases_objs(bases):
    return [[tuple(FO(l, d) for l, d in st_) for st_ in b] for b in bases]


# ---------------------------------------------------------- built-in arrays --

SPINFUL_MAPS = {"Z2": [0, 1, 1, 0], "U1": [0, 1, 1, 2],
                "Z2Z2": [(0, 0), (0, 1), (1, 0), (1, 1)],
                "U1U1": [(0, 0), (0, 1), (1, 0), (1, 1)]}


def law_builtin(ch):
    import symmray as sr

    warnings.simplefilter("ignore")
    which = ch.choice(["hubbard", "hubbard", "spinless", "spinless",
                       "number", "number-spinless", "spin"], "which")
    val = lambda tag: float(ch.choice([-3, -2, -1, 0, 1, 2, 3, 0.5], tag))
    if which in ("hubbard", "number", "spin"):
        symm = ch.choice(SYMS, "symm")
    else:
        symm = ch.choice(["Z2", "U1"], "symm")
    if which == "hubbard":
        t, Ua, Ub, mua, mub = (val("t"), val("Ua"), val("Ub"), val("mua"),
                               val("mub"))
        za, zb = ch.integer(1, 4, "za"), ch.integer(1, 4, "zb")
        scalar = ch.boolean("scalar-args")
        if scalar:
            Ub, mub = Ua, mua
        # (the documented default coordinations=(1, 1) is left out)
        ckw = {} if (za, zb) == (1, 1) else {"coordinations": (za, zb)}
        Gx = must(sr.fermi_hubbard_local_array, symm, t=t,
                  U=Ua if scalar else (Ua, Ub),
                  mu=mua if scalar else (mua, mub),
                  what="fermi_hubbard_local_array", **ckw)
        modes = ["au", "ad", "bu", "bd"]
        F = Fock([modes[i] for i in ch.perm(4, "jw-order")])
        n = F.number
        cd = lambda x, y: F.op(x, True) @ F.op(y, False)
        H = (-t * (cd("au", "bu") + cd("bu", "au") + cd("ad", "bd")
                   + cd("bd", "ad"))
             + Ua / za * n("au") @ n("ad") + Ub / zb * n("bu") @ n("bd")
             - mua / za * (n("au") + n("ad")) - mub / zb * (n("bu") + n("bd")))
        bases = [[(), (("ad", True),), (("au", True),),
                  (("au", True), ("ad", True))],
                 [(), (("bd", True),), (("bu", True),),
                  (("bu", True), ("bd", True))]]
        maps = [SPINFUL_MAPS[symm]] * 2
    elif which == "spinless":
        t, V, mua, mub = val("t"), val("V"), val("mua"), val("mub")
        za, zb = ch.integer(1, 4, "za"), ch.integer(1, 4, "zb")
        scalar = ch.boolean("scalar-args")
        if scalar:
            mub = mua
        ckw = {} if (za, zb) == (1, 1) else {"coordinations": (za, zb)}
        Gx = must(sr.fermi_hubbard_spinless_local_array, symm, t=t, V=V,
                  mu=mua if scalar else (mua, mub),
                  what="fermi_hubbard_spinless_local_array", **ckw)
        F = Fock(["a", "b"] if ch.boolean("jw") else ["b", "a"])
        n = F.number
        cd = lambda x, y: F.op(x, True) @ F.op(y, False)
        H = (-t * (cd("a", "b") + cd("b", "a")) + V * n("a") @ n("b")
             - mua / za * n("a") - mub / zb * n("b"))
        bases = [[(), (("a", True),)], [(), (("b", True),)]]
        maps = [[0, 1]] * 2
    else:
        if which == "number-spinless":
            Gx = must(sr.fermi_number_operator_spinless_local_array, symm,
                      what="number-spinless")
            F = Fock(["a"])
            H = F.number("a")
            bases = [[(), (("a", True),)]]
            maps = [[0, 1]]
        else:
            fn = (sr.fermi_number_operator_spinful_local_array
                  if which == "number" else sr.fermi_spin_operator_local_array)
            Gx = must(fn, symm, what=which)
            F = Fock(["au", "ad"] if ch.boolean("jw") else ["ad", "au"])
            n = F.number
            H = (n("au") + n("ad")) if which == "number" else \
                0.5 * (n("au") - n("ad"))
            bases = [[(), (("ad", True),), (("au", True),),
                      (("au", True), ("ad", True))]]
            maps = [SPINFUL_MAPS[symm]]
    dims = [len(b) for b in bases]
    want = np.zeros(dims * 2)
    for outs in itertools.product(*[range(d) for d in dims]):
        left = []
        for s, i in enumerate(outs):
            left += [(l, not d) for (l, d) in reversed(bases[s][i])]
        for ins in itertools.product(*[range(d) for d in dims]):
            right = []
            for s, i in enumerate(ins):
                right += list(bases[s][i])
            want[(*outs, *ins)] = F.vac @ (F.string(left) @ H
                                           @ F.string(right) @ F.vac)
    full = orig_order_dense(Gx, maps * 2)
    dense_equal(full, want, f"builtin:{which}", exact=False, K=4,
                what=f"{which} {symm}")
    ns = len(bases)
    require(list(Gx.duals) == [False] * ns + [True] * ns, "builtin:duals",
            f"{Gx.duals}")
    ch.label(f"which={which}")
    ch.label(f"symm={symm}")
    ch.mark_nontrivial(which in ("hubbard", "spinless"))


LAWS = [
    Law("elements", law_elements, quick=1200, thorough=20000,
        doc="build_local_fermionic_elements == vacuum expectation values of "
            "the operator strings (Jordan-Wigner)"),
    Law("action", law_action, quick=240, thorough=6000,
        doc="array elements through the labeling; contraction with state "
            "tensors acts as the Fock-space operator up to one sign gauge; "
            "Hermiticity, spectrum, product law"),
    Law("builtin", law_builtin, quick=600, thorough=8000,
        doc="built-in Hubbard / number / spin arrays == documented formulas"),
]

"""C16 — all ways of building an array agree; dense conversion round-trips."""

import warnings

import numpy as np
from hypothesis import strategies as st

from .. import gen
from ..compare import dense_equal, same_array
from ..core import Discrepancy, Law, attempt, must, require
from ..model import dense as D
from ..model import groups as G
from ..model.audit import require_valid

PROPERTY_ID = "C16"
RULE = (
    "Hypothesis-generated tensor specs (symmetries Z2,U1,Z2Z2,U1U1 static and "
    "dynamic classes, Z4 dynamic; abelian and fermionic; 0-4 legs, every "
    "dualness pattern, drawn charge, sparse stored sectors) built through "
    "__init__, from_blocks, from_fill_fn, random, from_dense (arbitrary "
    "unsorted / interleaved per-axis labelings) and symmray.utils.from_dense, "
    "with every subset of optional arguments omitted where the omitted value "
    "equals the documented default. Oracles: agreement among constructors, "
    "the model's brute-force sector set, and the dense projection "
    "(mask to charge-conserving positions, stable reorder by charge). "
    "Non-trivial: >=1 dual leg with a symmetry that is not self-inverse, or an "
    "unsorted labeling, or an omitted optional argument."
)
ASSUMPTIONS = [
    "documented defaults: omitted charge = identity for from_blocks / "
    "from_fill_fn / random / from_dense, inferred from the stored sectors for "
    "__init__",
]
ALLSYMS = ("Z2", "U1", "Z2Z2", "U1U1", "Z4")
NONSELF = ("U1", "U1U1", "Z4")


def sym_kwargs(spec, explicit):
    """symmetry= keyword: required for dynamic classes, optional (matching)
    for static classes."""
    if spec["dyn"] or spec["symm"] == "Z4":
        return {"symmetry": spec["symm"]}
    return {"symmetry": spec["symm"]} if explicit else {}


def ferm_kwargs(spec):
    return {"oddpos": spec["oddpos"]} if spec["ferm"] else {}


def law_blocks(ch):
    """__init__ vs from_blocks, with charge given or omitted."""
    spec = ch.draw(
        gen.array_specs(syms=ALLSYMS, allow_empty=False, phases=[]), "x")
    symm = spec["symm"]
    if not spec["sectors"]:
        return
    cls = gen.array_class(symm, spec["ferm"], spec["dyn"])
    explicit = ch.boolean("explicit-symmetry")
    kw = {**sym_kwargs(spec, explicit), **ferm_kwargs(spec)}
    blocks = gen.make_blocks(spec)
    duals = [ix["dual"] for ix in spec["idxs"]]
    indices = tuple(gen.build_index(ix) for ix in spec["idxs"])
    base = gen.build(spec)
    e = G.identity(symm)
    omitted = False

    # __init__ with the charge omitted: inferred from the stored sectors
    if spec["ferm"] and G.parity(symm, spec["charge"]) == 0:
        kw0 = dict(kw)
    else:
        kw0 = kw
    y = must(cls, indices=indices, blocks=dict(blocks), what="__init__", **kw0)
    require(y.charge == spec["charge"], "init:inferred-charge",
            lambda: f"inferred {y.charge!r}, sectors conserve "
                    f"{spec['charge']!r} (duals {duals})")
    require_valid(y, "init:invalid", "charge=None")
    same_array(y, base, "init:omitted-charge")

    # __init__ without blocks and without a charge: the documented default
    # is the identity charge
    y0 = must(cls, indices=indices, what="__init__(no blocks)",
              **sym_kwargs(spec, explicit))
    require(y0.charge == e and not y0.blocks, "init:empty-default-charge",
            lambda: f"charge {y0.charge!r}, {len(y0.blocks)} blocks")
    require_valid(y0, "init:invalid", "no blocks, no charge")

    # from_blocks
    give_charge = spec["charge"] != e or ch.boolean("give-charge")
    args = {}
    if give_charge:
        args["charge"] = spec["charge"]
    else:
        omitted = True
    z = must(cls.from_blocks, dict(blocks), duals, what="from_blocks",
             **args, **kw)
    require(type(z) is type(base), "from_blocks:class", f"{type(z)}")
    require(z.charge == spec["charge"], "from_blocks:charge",
            lambda: f"{z.charge!r} vs {spec['charge']!r}")
    require(list(z.duals) == duals, "from_blocks:duals", f"{z.duals}")
    require_valid(z, "from_blocks:invalid", "from_blocks")
    ref = [dict(ix["cm"]) for ix in spec["idxs"]]
    for ax, ix in enumerate(z.indices):
        present = {s[ax] for s in spec["sectors"]}
        require(set(ix.chargemap) == present, "from_blocks:table",
                lambda: f"axis {ax}: {ix.chargemap} vs stored {present}")
    dense_equal(D.dense_of(z, ref=ref), D.dense_of(base), "from_blocks:value")
    if spec["ferm"]:
        require(tuple(map(repr, z.oddpos)) == tuple(map(repr, base.oddpos)),
                "from_blocks:labels", "")
    for lab in gen.spec_summary(spec):
        ch.label(lab)
    if not explicit and not spec["dyn"]:
        omitted = True
    ch.mark_nontrivial(
        omitted or (symm in NONSELF and any(duals))
    )


def law_init_phases(ch):
    """__init__ with the documented `phases` argument (fermionic): the array
    denotes the blocks with those signs applied."""
    spec = ch.draw(
        gen.array_specs(syms=ALLSYMS[:4], allow_empty=False, phases=[],
                        ferm=True), "x")
    if not spec["sectors"] or not spec["ferm"]:
        return
    cls = gen.array_class(spec["symm"], True, spec["dyn"])
    kw = {**sym_kwargs(spec, ch.boolean("explicit-symmetry")),
          **ferm_kwargs(spec)}
    blocks = gen.make_blocks(spec)
    indices = tuple(gen.build_index(ix) for ix in spec["idxs"])
    neg = ch.subset(sorted(spec["sectors"]), "init-phases")
    give_charge = ch.boolean("give-charge")
    ckw = {"charge": spec["charge"]} if give_charge else {}
    yp = must(cls, indices=indices, blocks=dict(blocks),
              phases={s: -1 for s in neg}, what="__init__(phases=)",
              **ckw, **kw)
    signed = {s: (-np.asarray(b) if s in neg else np.asarray(b))
              for s, b in blocks.items()}
    want = must(cls, indices=indices, charge=spec["charge"], blocks=signed,
                what="__init__", **kw)
    require_valid(yp, "init:invalid", "phases=")
    dense_equal(must(yp.to_dense, what="to_dense"), D.dense_of(want),
                "init:phases-argument", what="array built with phases=")
    ys = must(yp.phase_sync, what="phase_sync")
    same_array(ys, want, "init:phases-argument-synced")
    for lab in gen.spec_summary(spec):
        ch.label(lab)
    ch.mark_nontrivial(bool(neg))


def law_fill(ch):
    """from_fill_fn / random vs __init__ on the model's sector set."""
    spec = ch.draw(
        gen.array_specs(syms=ALLSYMS, sparsity="full", phases=[],
                        dtype=st.sampled_from(
                            ["float64", "complex128", "float32"])
                        if False else None), "x")
    symm = spec["symm"]
    cls = gen.array_class(symm, spec["ferm"], spec["dyn"])
    explicit = ch.boolean("explicit-symmetry")
    kw = {**sym_kwargs(spec, explicit), **ferm_kwargs(spec)}
    indices = tuple(gen.build_index(ix) for ix in spec["idxs"])
    duals = [ix["dual"] for ix in spec["idxs"]]
    e = G.identity(symm)

    def fill(shape):
        n = int(np.prod(shape)) if len(shape) else 1
        return (np.arange(n, dtype="float64") + 1 + len(shape)).reshape(shape)

    want_secs = gen.spec_valid_sectors(symm, spec["idxs"], spec["charge"])
    give_charge = spec["charge"] != e or ch.boolean("give-charge")
    args = {"charge": spec["charge"]} if give_charge else {}
    y = must(cls.from_fill_fn, fill, indices, what="from_fill_fn",
             **args, **kw)
    base = must(
        cls, indices=indices, charge=spec["charge"],
        blocks={s: fill(tuple(ix["cm"][c] for c, ix in zip(s, spec["idxs"])))
                for s in want_secs},
        what="__init__", **kw)
    require_valid(y, "fill:invalid", "from_fill_fn")
    require(set(y.sectors) == set(want_secs)
            and len(y.sectors) == len(want_secs),
            "fill:sectors", lambda: f"{sorted(y.sectors)} vs {want_secs}")
    same_array(y, base, "fill:vs-init", zero_is_missing=False)

    dtype = ch.choice(["float64", "complex128", "float32", "complex64"],
                      "dtype")
    r = must(cls.random, indices, what="random", seed=spec["seed"],
             dtype=dtype, **args, **kw)
    require_valid(r, "random:invalid", "random")
    require(r.charge == spec["charge"], "random:charge", f"{r.charge!r}")
    require(set(r.sectors) == set(want_secs), "random:sectors",
            lambda: f"{sorted(r.sectors)} vs {want_secs}")
    for s, b in r.blocks.items():
        require(str(np.asarray(b).dtype) == dtype, "random:dtype",
                lambda: f"{np.asarray(b).dtype} != {dtype}")
    for lab in gen.spec_summary(spec):
        ch.label(lab)
    ch.mark_nontrivial(
        (not give_charge) or (not explicit and not spec["dyn"])
        or (symm in NONSELF and any(duals))
    )


@st.composite
def labelings(draw, spec):
    """per-axis labeling of dense positions: an arbitrary interleaving of the
    charges of the leg, each repeated 'size' times"""
    maps = []
    unsorted_ = False
    for ix in spec["idxs"]:
        lab = []
        for c in sorted(ix["cm"]):
            lab += [c] * ix["cm"][c]
        if draw(st.integers(0, 3)) > 0:
            lab2 = draw(st.permutations(lab))
            if list(lab2) != lab:
                unsorted_ = True
            lab = list(lab2)
        maps.append(lab)
    return {"maps": maps, "unsorted": unsorted_}


def stable_order(lab):
    return sorted(range(len(lab)), key=lambda i: (lab[i], i))


def law_dense(ch):
    """from_dense with arbitrary labelings: projection + reorder; round trip
    through to_dense; utils.from_dense; invalid_sectors modes."""
    import symmray as sr

    spec = ch.draw(
        gen.array_specs(syms=ALLSYMS, min_ndim=0, max_ndim=3, phases=[]), "x")
    symm = spec["symm"]
    cls = gen.array_class(symm, spec["ferm"], spec["dyn"])
    explicit = ch.boolean("explicit-symmetry")
    kw = {**sym_kwargs(spec, explicit), **ferm_kwargs(spec)}
    lab = ch.draw(labelings(spec), "labeling")
    maps = lab["maps"]
    duals = [ix["dual"] for ix in spec["idxs"]]
    shape = tuple(len(m) for m in maps)
    rng = np.random.default_rng(spec["seed"])
    A = rng.integers(-4, 5, size=shape).astype("float64")
    if "complex" in spec["dtype"]:
        A = A + 1j * rng.integers(-4, 5, size=shape)
    e = G.identity(symm)
    give_charge = spec["charge"] != e or ch.boolean("give-charge")
    args = {"charge": spec["charge"]} if give_charge else {}
    # expected: reorder by charge (stable), mask to conserving positions
    orders = [stable_order(m) for m in maps]
    B = A
    for ax, o in enumerate(orders):
        B = np.take(B, o, axis=ax)
    cms = [dict(ix["cm"]) for ix in spec["idxs"]]
    mask = D.conserving_mask(symm, cms, duals, spec["charge"])
    want = np.where(mask, B, 0)
    mode = ch.choice(["ignore", "ignore", "warn", "raise"], "invalid_sectors")
    mapform = ch.choice(["list", "dict", "dict-shuffled"], "mapform")
    if mapform == "dict":
        maps_arg = [dict(enumerate(m)) for m in maps]
    elif mapform == "dict-shuffled":
        # a label dict need not have been filled in ascending key order
        maps_arg = []
        for k, m in enumerate(maps):
            order = ch.perm(len(m), f"dict-order{k}") if len(m) <= 5 else \
                list(range(len(m) - 1, -1, -1))
            maps_arg.append({i: m[i] for i in order})
    else:
        maps_arg = maps
    has_weight = bool(np.any(np.where(mask, 0, B) != 0))
    with warnings.catch_warnings(record=True) as wlist:
        warnings.simplefilter("always")
        if mode == "ignore":
            ok, y = True, must(cls.from_dense, A, maps_arg, duals,
                               what="from_dense", invalid_sectors=mode,
                               **args, **kw)
        else:
            ok, y = attempt(cls.from_dense, A, maps_arg, duals,
                            invalid_sectors=mode, **args, **kw)
            if not ok:
                require(mode == "raise" and has_weight, "from_dense:raised",
                        f"{mode}: {type(y).__name__}: {y}")
                ch.count("raised:invalid_sectors")
            # the documented modes: 'raise' actively errors and 'warn' warns
            # when entries outside the conserving sectors are discarded
            require(not (ok and mode == "raise" and has_weight),
                    "from_dense:raise-mode-silent",
                    "non-zero entries outside the charge-conserving sectors "
                    "were discarded although invalid_sectors='raise'")
            if mode == "warn" and ok and has_weight:
                # (any warning counts: its wording is not part of the claim)
                require(len(wlist) > 0, "from_dense:warn-mode",
                        "weight outside the conserving sectors was discarded "
                        "without a warning although invalid_sectors='warn'")
    if ok:
        require(type(y) is cls, "from_dense:class", f"{type(y)}")
        require_valid(y, "from_dense:invalid", "from_dense")
        require(y.charge == spec["charge"], "from_dense:charge",
                lambda: f"{y.charge!r} vs {spec['charge']!r}")
        require(list(y.duals) == duals, "from_dense:duals", f"{y.duals}")
        for ax, ix in enumerate(y.indices):
            require(dict(ix.chargemap) == cms[ax], "from_dense:table",
                    lambda: f"axis {ax}: {ix.chargemap} vs {cms[ax]}")
        dense_equal(D.dense_of(y), want, "from_dense:projection",
                    what="dense->blocks")
        back = must(y.to_dense, what="to_dense")
        dense_equal(back, want, "to_dense:value", what="dense->blocks->dense")
        # round trip with the matching (sorted) labels is the identity
        sorted_maps = [D.position_charges(cm) for cm in cms]
        z = must(cls.from_dense, back, sorted_maps, duals, what="from_dense",
                 invalid_sectors="raise", **args, **kw)
        same_array(z, y, "roundtrip:to_dense-from_dense")
        # module-level helper (static classes only)
        if symm != "Z4" and (not give_charge or True):
            u = must(sr.utils.from_dense, A, symm, maps_arg, duals=duals,
                     fermionic=spec["ferm"], charge=args.get("charge"),
                     what="utils.from_dense") \
                if not (spec["ferm"] and G.parity(symm, spec["charge"])) \
                else None
            if u is not None:
                dense_equal(D.dense_of(u), want, "utils.from_dense:value")
                require(u.charge == spec["charge"], "utils.from_dense:charge",
                        f"{u.charge!r}")
    for l in gen.spec_summary(spec):
        ch.label(l)
    ch.label(f"invalid_sectors={mode}")
    if lab["unsorted"]:
        ch.label("unsorted-labeling")
    ch.mark_nontrivial(
        lab["unsorted"] or not give_charge
        or (symm in NONSELF and any(duals))
    )


def law_roundtrip(ch):
    """to_dense then from_dense with the sorted labels is the identity on a
    generated (sparse, possibly lazily signed) array; to_dense equals the
    harness' own densifier."""
    spec = ch.draw(gen.array_specs(syms=ALLSYMS, allow_empty=False,
                                   dtype="any"), "x")
    symm = spec["symm"]
    x = gen.build(spec)
    if not x.blocks:
        return
    cls = type(x)
    d = must(x.to_dense, what="to_dense")
    dense_equal(d, D.dense_of(x), "to_dense:vs-model", what="to_dense")
    if spec["dtype"] == "mixed":
        # blocks of differing dtype: only the dense value is judged
        ch.label("mixed-dtype")
        ch.mark_nontrivial(True)
        return
    kw = {**sym_kwargs(spec, ch.boolean("explicit-symmetry")),
          **ferm_kwargs(spec)}
    cms = [dict(ix["cm"]) for ix in spec["idxs"]]
    maps = [D.position_charges(cm) for cm in cms]
    y = must(cls.from_dense, d, maps, x.duals, charge=x.charge,
             what="from_dense", invalid_sectors="raise", **kw)
    xs = x.phase_sync() if spec["ferm"] else x
    same_array(y, xs, "roundtrip:from_dense(to_dense(x))")
    for l in gen.spec_summary(spec):
        ch.label(l)
    ch.mark_nontrivial(gen.is_sparse(spec) or bool(spec.get("phases"))
                       or (symm in NONSELF and any(x.duals)))


LAWS = [
    Law("blocks", law_blocks, quick=1500, thorough=20000,
        doc="__init__ (charge inferred) and from_blocks agree with the "
            "explicit constructor"),
    Law("init_phases", law_init_phases, quick=600, thorough=8000,
        doc="fermionic __init__(phases=P) denotes the blocks with the signs "
            "P applied"),
    Law("fill", law_fill, quick=1000, thorough=12000,
        doc="from_fill_fn / random store exactly the model's valid sectors "
            "and agree with __init__"),
    Law("dense", law_dense, quick=1500, thorough=20000,
        doc="from_dense with arbitrary labelings = projection + stable "
            "reorder; to_dense inverts it; utils.from_dense agrees"),
    Law("roundtrip", law_roundtrip, quick=1000, thorough=12000,
        doc="from_dense(to_dense(x), sorted labels) == x"),
]

"""C03 — fermionic operations follow graded (Grassmann) tensor semantics."""

import hashlib
import itertools

import numpy as np
from hypothesis import strategies as st

from .. import gen
from ..compare import dense_equal, scalar_equal
from ..core import Discrepancy, Law, must, require
from ..model import dense as D
from ..model import graded as GR
from ..model import groups as G
from ..model.audit import require_valid
from .c02 import einsum_cases, trace_cases, _pairs

PROPERTY_ID = "C03"
RULE = (
    "Fermionic arrays over Z2,U1,Z2Z2,U1U1 (static/dynamic classes), 0-4 "
    "axes, every dualness pattern, even and odd total charge with distinct "
    "integer labels, sparse, pending lazy signs, real/complex integer data. "
    "Oracle: an independent elementwise Z2-graded dense algebra (signs by "
    "inversion counting, vf.model.graded) times the label model for the "
    "overall sign of products of odd tensors. Laws: transpose for drawn "
    "permutations; tensordot (fused and blockwise, three call forms); @; "
    "trace; single-array einsum. Exhaustive law: Z2, full charge sets, sizes "
    "1-2, every pair of ranks <=3, every dualness pattern, every choice and "
    "order of contracted axes, every parity pair, both modes (sparsity from "
    "a hash of the case). Non-trivial: >=1 stored sector with >=2 odd charges "
    "and, for contractions, >=1 odd contracted charge."
)
ASSUMPTIONS = [
    "graded-tensor semantics as stated in the property: transposition sign = "
    "sign of the permutation restricted to odd indices; contraction after "
    "bringing the operands adjacent, nested pair evaluation, one sign per odd "
    "contracted index meeting as ket-then-bra",
    "labels act as odd dummy legs to the left of their tensor; products sort "
    "them with a sign per transposition",
]


def odd_count(symm, sector):
    return sum(G.parity(symm, c) for c in sector)


def has_two_odd(spec):
    return any(odd_count(spec["symm"], s) >= 2 for s in spec["sectors"])


def law_transpose(ch):
    import autoray as ar
    import symmray as sr

    spec = ch.draw(gen.array_specs(ferm=True, min_ndim=1), "x")
    x = gen.build(spec)
    perm = ch.perm(x.ndim, "perm")
    t = GR.from_array(x)
    want = GR.transpose(t, perm)
    form = ch.choice(["method", "sr", "ar", "T"], "form")
    if form == "T":
        perm = tuple(range(x.ndim - 1, -1, -1))
        want = GR.transpose(t, perm)
        y = must(lambda: x.T, what="T")
    elif form == "method":
        y = must(x.transpose, perm, what="transpose")
    elif form == "sr":
        y = must(sr.transpose, x, perm, what="transpose")
    else:
        y = must(ar.do, "transpose", x, perm, what="transpose")
    require_valid(y, "transpose:invalid", "result")
    require(list(y.duals) == want.duals, "transpose:duals", "")
    require(y.charge == x.charge, "transpose:charge", "")
    require(GR.labels_of(y) == GR.labels_of(x), "transpose:labels", "")
    ref = [dict(x.indices[p].chargemap) for p in perm]
    dense_equal(D.dense_of(y, ref=ref), want.data, "transpose:value",
                what=f"perm {perm}")
    # phase=False is the plain permutation
    z = must(x.transpose, perm, phase=False, what="transpose(phase=False)")
    dense_equal(D.dense_of(z, ref=ref), np.transpose(t.data, perm),
                "transpose-nophase:value")
    for lab in gen.spec_summary(spec):
        ch.label(lab)
    ch.mark_nontrivial(has_two_odd(spec) and list(perm) != sorted(perm))


def check_contraction(ch, a, b, sa, sb, axes_a, axes_b, modes, forms=True):
    import autoray as ar
    import symmray as sr

    symm = D.symm_of(a)
    ta, tb = GR.from_array(a), GR.from_array(b)
    want = GR.tensordot(ta, tb, axes_a, axes_b)
    lsign, labels = GR.combine_labels(
        G.parity(symm, a.charge), GR.labels_of(a), GR.labels_of(b))
    wdata = want.data * lsign
    fa = [i for i in range(a.ndim) if i not in axes_a]
    fb = [i for i in range(b.ndim) if i not in axes_b]
    ref = [dict(a.indices[i].chargemap) for i in fa] + [
        dict(b.indices[i].chargemap) for i in fb]
    wcharge = G.combine(symm, a.charge, b.charge)
    for mode in modes:
        sig = f"tensordot[{mode}]"
        preserve = True
        form = "sr"
        if forms:
            form = ch.choice(["sr", "ar"], f"form-{mode}")
            preserve = ch.boolean(f"preserve-{mode}")
        fn = sr.tensordot if form == "sr" else (
            lambda *a_, **k: ar.do("tensordot", *a_, **k))
        # (the documented default is preserve_array=False: left out for
        # one of the modes)
        kw = {} if (not preserve and mode != "fused") else {
            "preserve_array": preserve}
        # (the documented default axes=2 - last two legs of a with the
        # first two of b - is left out when that is the drawn contraction)
        default_axes = (list(axes_a) == [a.ndim - 2, a.ndim - 1]
                        and list(axes_b) == [0, 1] and mode != "fused")
        pos = () if default_axes else ((tuple(axes_a), tuple(axes_b)),)
        if default_axes:
            ch.count("default-axes")
        r = must(fn, a, b, *pos, mode=mode, what=sig, **kw)
        if isinstance(r, sr.FermionicArray):
            require(not (r.ndim == 0 and not preserve), sig + ":scalar-form",
                    "rank-0 array although preserve_array=False")
            require_valid(r, sig + ":invalid", "result")
            require(r.charge == wcharge, sig + ":charge",
                    lambda: f"{r.charge!r} vs {wcharge!r}")
            require(list(r.duals) == want.duals, sig + ":duals", "")
            require(GR.labels_of(r) == labels, sig + ":labels",
                    lambda: f"{GR.labels_of(r)} vs model {labels}")
            dense_equal(D.dense_of(r, ref=ref), wdata, sig + ":value",
                        what=f"axes {axes_a},{axes_b}")
        else:
            require(len(fa) + len(fb) == 0 and not preserve, sig + ":type",
                    lambda: f"{type(r)}")
            scalar_equal(r, wdata, sig + ":scalar", what=mode)
    if a.blocks and forms:
        # documented shorthand: a rank-0 second operand is a scalar factor
        r0 = must(sr.tensordot, a, 3, 0, what="tensordot(a, scalar)")
        dense_equal(D.dense_of(r0, ref=[dict(ix.chargemap)
                                        for ix in a.indices]),
                    3 * D.dense_of(a), "tensordot:scalar-operand",
                    what="tensordot(a, 3, 0)")
    return want


def law_tensordot(ch, many=False):
    if many:
        pair = ch.draw(gen.contraction_pairs(
            ferm=True, min_con=4, max_ndim=8, ncon_choices=(4, 5, 6, 7),
            max_size=1, max_charges=2, syms=("Z2", "U1", "Z2Z2")), "pair")
    else:
        pair = ch.draw(gen.contraction_pairs(ferm=True), "pair")
    sa, sb = pair["a"], pair["b"]
    a, b = gen.build(sa), gen.build(sb)
    A, B = list(pair["axes_a"]), list(pair["axes_b"])
    check_contraction(ch, a, b, sa, sb, A, B, ("fused", "blockwise", "auto"))
    symm = sa["symm"]
    odd_con = any(
        G.parity(symm, s[i]) for s in sa["sectors"] for i in A)
    for lab in ("ncon=%d" % len(A), f"symm={symm}"):
        ch.label(lab)
    pa, pb = G.parity(symm, sa["charge"]), G.parity(symm, sb["charge"])
    ch.label(f"parities={pa}{pb}")
    if sa.get("phases") or sb.get("phases"):
        ch.label("pending-signs")
    ch.mark_nontrivial((has_two_odd(sa) or has_two_odd(sb)) and
                       (odd_con or not A))


@st.composite
def matmul_cases(draw):
    symm = draw(st.sampled_from(gen.SYMS4))
    ra, rb = draw(st.sampled_from([(1, 1), (1, 2), (2, 1), (2, 2)]))
    mid = draw(gen.index_specs(symm, min_charges=draw(st.integers(1, 2))))
    ia = ([draw(gen.index_specs(symm))] if ra == 2 else []) + [mid]
    ib = [gen.conj_index_spec(mid)] + (
        [draw(gen.index_specs(symm))] if rb == 2 else [])
    la, lb = draw(st.lists(st.integers(1, 60), min_size=2, max_size=2,
                           unique=True))
    dyn = draw(st.integers(0, 4)) == 0
    a = draw(gen.array_specs(symm=symm, ferm=True, idxs=ia, label=la, dyn=dyn))
    b = draw(gen.array_specs(symm=symm, ferm=True, idxs=ib, label=lb, dyn=dyn,
                             dtype=a["dtype"]))
    return {"a": a, "b": b}


def law_matmul(ch):
    import symmray as sr

    case = ch.draw(matmul_cases(), "case")
    sa, sb = case["a"], case["b"]
    a, b = gen.build(sa), gen.build(sb)
    symm = sa["symm"]
    ta, tb = GR.from_array(a), GR.from_array(b)
    want = GR.tensordot(ta, tb, [a.ndim - 1], [0])
    lsign, labels = GR.combine_labels(
        G.parity(symm, sa["charge"]), GR.labels_of(a), GR.labels_of(b))
    r = must(lambda: a @ b, what="matmul")
    if isinstance(r, sr.FermionicArray):
        require(r.ndim > 0, "matmul:scalar-form", "")
        require_valid(r, "matmul:invalid", "result")
        ref = [dict(a.indices[i].chargemap) for i in range(a.ndim - 1)] + [
            dict(b.indices[i].chargemap) for i in range(1, b.ndim)]
        require(GR.labels_of(r) == labels, "matmul:labels",
                lambda: f"{GR.labels_of(r)} vs {labels}")
        dense_equal(D.dense_of(r, ref=ref), want.data * lsign, "matmul:value")
    else:
        require(a.ndim == 1 and b.ndim == 1, "matmul:type", f"{type(r)}")
        scalar_equal(r, want.data * lsign, "matmul:scalar")
    ch.label(f"ranks={a.ndim},{b.ndim}")
    ch.mark_nontrivial(any(G.parity(symm, s[-1]) for s in sa["sectors"]))


def law_trace(ch):
    import symmray as sr

    spec = ch.draw(trace_cases(ferm=True, syms=gen.SYMS4), "x")
    x = gen.build(spec)
    symm = spec["symm"]
    if G.parity(symm, spec["charge"]):
        # an odd matrix has no diagonal blocks; the value is 0
        pass
    t = GR.from_array(x)
    want = GR.trace_pairs(t, [(0, 1)], []).data
    r = must(x.trace, what="trace")
    scalar_equal(r, want, "trace:value",
                 what=f"duals {x.duals}")
    ch.label(f"duals={int(x.duals[0])}{int(x.duals[1])}")
    ch.mark_nontrivial(
        any(s[0] == s[1] and G.parity(symm, s[0]) for s in spec["sectors"]))


def law_einsum(ch):
    import symmray as sr

    case = ch.draw(einsum_cases(ferm=True, syms=gen.SYMS4), "case")
    spec, eq = case["x"], case["eq"]
    x = gen.build(spec)
    symm = spec["symm"]
    lhs, rhs = eq.split("->")
    t = GR.from_array(x)
    pairs = _pairs(lhs, rhs)
    out_order = [lhs.index(q) for q in rhs]
    want = GR.trace_pairs(t, pairs, out_order)
    preserve = ch.boolean("preserve")
    form = ch.choice(["method", "sr"], "form")
    if form == "method" or preserve:
        r = must(x.einsum, eq, preserve_array=preserve, what="einsum")
    else:
        r = must(sr.einsum, eq, x, what="einsum")
    if isinstance(r, sr.FermionicArray):
        require(not (len(rhs) == 0 and not preserve), "einsum:scalar-form", eq)
        require_valid(r, "einsum:invalid", "result")
        ref = [dict(x.indices[i].chargemap) for i in out_order]
        require(list(r.duals) == want.duals, "einsum:duals", eq)
        require(GR.labels_of(r) == GR.labels_of(x), "einsum:labels", eq)
        dense_equal(D.dense_of(r, ref=ref), want.data, "einsum:value", what=eq)
    else:
        require(len(rhs) == 0 and not preserve, "einsum:type", f"{type(r)}")
        scalar_equal(r, want.data, "einsum:scalar", what=eq)
    ch.label(f"pairs={case['npairs']}")
    odd_traced = any(
        G.parity(symm, s[i]) and s[i] == s[j]
        for s in spec["sectors"] for i, j in pairs)
    ch.mark_nontrivial(case["npairs"] >= 1 and odd_traced)


@st.composite
def product_cases(draw):
    """2-3 small fermionic factors (distinct labels) to be multiplied into a
    tensor carrying several labels"""
    symm = draw(st.sampled_from(gen.SYMS4))
    k = draw(st.integers(1, 3))
    labs = draw(st.lists(st.integers(1, 40), min_size=k, max_size=k,
                         unique=True))
    facs = []
    rank_left = 4
    for i in range(k):
        r = draw(st.integers(1, min(2, rank_left - (k - 1 - i))))
        rank_left -= r
        facs.append(draw(gen.array_specs(
            symm=symm, ferm=True, min_ndim=r, max_ndim=r, label=labs[i],
            dyn=False, parity=draw(st.sampled_from([1, 1, 0])),
            allow_empty=False, max_size=2, dtype="float64")))
    return {"factors": facs}


def law_conjugate_pair(ch):
    """T = product of odd factors (several labels); contract T with T.conj()
    (all or some axes, either operand order): value and remaining labels
    follow the graded model with conjugate labels annihilating pairwise."""
    import symmray as sr

    case = ch.draw(product_cases(), "case")
    facs = [gen.build(f) for f in case["factors"]]
    T = facs[0]
    for f in facs[1:]:
        T = must(sr.tensordot, T, f, 0, what="outer")
    if not T.blocks:
        return
    phase_dual = ch.boolean("phase_dual")
    Tc = must(T.conj, phase_dual=phase_dual, what="conj")
    n = T.ndim
    full = ch.boolean("full", p=0.6)
    if full:
        order = list(ch.perm(n, "order"))
        A, B = order, order
    else:
        kk = ch.integer(0, n, "ncon")
        order = list(ch.perm(n, "order"))[:kk]
        A, B = order, order
    swap = ch.boolean("swap")
    a, b = (Tc, T) if swap else (T, Tc)
    check_contraction(ch, a, b, None, None, A, B, ("fused", "blockwise"))
    ch.label(f"nlabels={len(T.oddpos)}")
    ch.label("full" if len(A) == n else "partial")
    ch.mark_nontrivial(len(T.oddpos) >= 2)



# ------------------------------------------------------------ exhaustive ----


def exhaustive_cases(tier):
    stride = 5 if tier == "quick" else 1
    k = 0
    for ra in (0, 1, 2, 3):
        for rb in (0, 1, 2, 3):
            for ncon in range(0, min(ra, rb) + 1):
                for A in itertools.permutations(range(ra), ncon):
                    for B in itertools.permutations(range(rb), ncon):
                        k += 1
                        if k % stride:
                            continue
                        yield {"ra": ra, "rb": rb, "A": list(A), "B": list(B),
                               "symm": "Z2"}
                        if tier != "quick" or k % (stride * 3) == 0:
                            yield {"ra": ra, "rb": rb, "A": list(A),
                                   "B": list(B), "symm": "U1"}


SIZES = [{0: 1, 1: 2}, {0: 2, 1: 1}, {0: 1, 1: 1}]


def _mask(key, n):
    h = hashlib.sha256(repr(key).encode()).digest()
    bits = [(h[i // 8] >> (i % 8)) & 1 for i in range(n)]
    if not any(bits):
        bits[h[-1] % n] = 1
    return bits


def law_exhaustive(ch):
    case = ch.draw(None, "case")
    ra, rb, A, B = case["ra"], case["rb"], case["A"], case["B"]
    symm = case.get("symm", "Z2")
    fb = [i for i in range(rb) if i not in B]
    n = 0
    nt = False
    for duals_a in itertools.product((False, True), repeat=ra):
        for duals_fb in itertools.product((False, True), repeat=len(fb)):
            ia = [{"cm": dict(SIZES[i % 3]), "dual": duals_a[i]}
                  for i in range(ra)]
            ib = [None] * rb
            for xa, xb in zip(A, B):
                ib[xb] = gen.conj_index_spec(ia[xa])
            for k, i in enumerate(fb):
                ib[i] = {"cm": dict(SIZES[(i + 1) % 3]), "dual": duals_fb[k]}
            for pa in (0, 1):
                for pb in (0, 1):
                    specs = []
                    for idxs, par, lab in ((ia, pa, 3), (ib, pb, 2)):
                        # (for U1 the total charge is the parity itself: 0 / 1)
                        secs = gen.spec_valid_sectors(symm, idxs, par)
                        m = _mask((case, duals_a, duals_fb, pa, pb, lab),
                                  len(secs)) if secs else []
                        specs.append({
                            "symm": symm, "ferm": True, "dyn": False,
                            "idxs": idxs, "charge": par,
                            "sectors": [s for s, q in zip(secs, m) if q],
                            "nvalid": len(secs), "seed": n, "dtype": "float64",
                            "data": "int", "oddpos": lab, "phases": [],
                        })
                    sa, sb = specs
                    a, b = gen.build(sa), gen.build(sb)
                    check_contraction(ch, a, b, sa, sb, A, B,
                                      ("fused", "blockwise"), forms=False)
                    n += 1
                    nt = nt or (has_two_odd(sa) and bool(A))
    ch.count("inner", n)
    ch.label(f"{symm}/ranks={ra},{rb}/ncon={len(A)}")
    ch.mark_nontrivial(nt)


LAWS = [
    Law("transpose", law_transpose, quick=1600, thorough=24000,
        doc="fermionic transpose == graded transpose (inversion counting)"),
    Law("tensordot", law_tensordot, quick=2400, thorough=40000,
        doc="fermionic tensordot (fused/blockwise/auto, call forms) == "
            "graded contraction x label sign; labels equal the model's"),
    Law("tensordot_many_legs", lambda ch: law_tensordot(ch, many=True),
        quick=300, thorough=4000,
        doc="the same with 4-7 thin contracted legs (ranks up to 8)"),
    Law("conjugate_pair", law_conjugate_pair, quick=1200, thorough=16000,
        doc="products of odd tensors contracted with their own conjugate "
            "(all / some axes, both orders): labels annihilate pairwise"),
    Law("matmul", law_matmul, quick=600, thorough=8000, doc="a @ b"),
    Law("trace", law_trace, quick=400, thorough=6000,
        doc="matrix trace for both bra-ket direction patterns"),
    Law("einsum", law_einsum, quick=800, thorough=12000,
        doc="single-array einsum (traces + permutation)"),
    Law("exhaustive", law_exhaustive, kind="enum", cases=exhaustive_cases,
        doc="Z2 and U1 (charges 0/1): every rank pair <=3, dualness pattern, "
            "ordered choice of contracted axes, parity pair, both modes "
            "(quick: 1/5 stride of Z2, 1/15 of U1)"),
]

"""C04 — a fermionic network's value does not depend on how it is
contracted."""

import numpy as np

from .. import network as N
from ..compare import dense_equal
from ..core import Discrepancy, Law, must, require
from ..model import dense as D
from ..model import graded as GR
from ..model import groups as G
from ..model.audit import require_valid

PROPERTY_ID = "C04"
RULE = (
    "Hypothesis-generated networks of 2-4 fermionic tensors (pair, double "
    "bond, chain, triangle, star, 4-cycle, disconnected piece; 0-2 dangling "
    "legs per tensor; drawn bond orientations; legs of every tensor in drawn "
    "order; every tensor even or odd - half of the cases are biased to >=3 "
    "odd tensors - with distinct integer labels, some tensors conjugated so "
    "that conjugate labels occur; sparse; pending signs; real/complex integer "
    "data; Z2,U1,Z2Z2,U1U1). Metamorphic oracle: the canonical left-to-right "
    "blockwise route versus drawn alternative routes: any pair order (incl. "
    "outer products), operands swapped, contracted pairs relisted, a drawn "
    "fermionic transpose of an operand first, several bonds at once vs one "
    "by tensordot and the rest by einsum trace vs outer product then trace, "
    "random mode per step. Final tensors are brought to a common leg order "
    "by the fermionic transpose and compared exactly (values, labels, "
    "charge). Non-trivial: (>=2 odd tensors, or >=1 odd tensor and a bond "
    "with an odd charge) and >=2 distinct routes executed."
)
ASSUMPTIONS = [
    "integer-valued data, so every route must agree exactly",
    "the fermionic transpose used to bring results to a common leg order is "
    "itself decided by C03",
]


def run_route(ch, tensors, tag, canonical=False):
    cur = list(tensors)
    steps = []
    while len(cur) > 1:
        n = len(cur)
        if canonical:
            i, j = 0, 1
            opts = {"mode": "blockwise"}
        else:
            i = ch.integer(0, n - 1, f"{tag}.i{len(steps)}")
            j = ch.integer(0, n - 2, f"{tag}.j{len(steps)}")
            if j >= i:
                j += 1
            X, Y = cur[i], cur[j]
            shared = [q for q in X[1] if q in Y[1]]
            opts = {
                "mode": ch.choice(["blockwise", "fused", "auto"],
                                  f"{tag}.mode{len(steps)}"),
                "swap": False,
            }
            if len(shared) > 1:
                opts["relist"] = list(ch.perm(len(shared),
                                              f"{tag}.relist{len(steps)}"))
                opts["via"] = ch.choice(
                    ["tensordot", "tensordot", "split", "outer-einsum"],
                    f"{tag}.via{len(steps)}")
            elif len(shared) == 1:
                opts["via"] = ch.choice(
                    ["tensordot", "tensordot", "tensordot", "outer-einsum"],
                    f"{tag}.via{len(steps)}")
            if ch.boolean(f"{tag}.pre{len(steps)}", p=0.35):
                which = ch.integer(0, 1, f"{tag}.which{len(steps)}")
                nd = len((X, Y)[which][1])
                if nd >= 2:
                    opts["pre"] = (which, list(ch.perm(
                        nd, f"{tag}.preperm{len(steps)}")))
        X, Y = cur[i], cur[j]
        if (not canonical and len(cur) == 2 and opts.get("via", "tensordot")
                == "tensordot" and "pre" not in opts
                and sorted(X[1]) == sorted(Y[1])
                and ch.boolean(f"{tag}.scalar", p=0.5)):
            # closed network: the last step may return a plain number
            import symmray as sr

            ax = [X[1].index(q) for q in X[1]]
            ay = [Y[1].index(q) for q in X[1]]
            val = must(sr.tensordot, X[0], Y[0], (ax, ay), mode=opts["mode"],
                       what="tensordot(scalar)")
            steps.append((i, j, dict(opts, scalar=True)))
            return (val, []), steps
        r, names = N.contract_pair(X, Y, **opts)
        steps.append((i, j, {k: v for k, v in opts.items()}))
        cur = [c for k, c in enumerate(cur) if k not in (i, j)]
        cur.insert(min(i, j) if canonical else 0, (r, names))
    return cur[0], steps


def law_routes(ch):
    from ..network import network_specs

    net = ch.draw(network_specs(), "net")
    tensors = N.build_network(net)
    symm = net["symm"]
    (r0, names0), _ = run_route(ch, tensors, "canon", canonical=True)
    require_valid(r0, "canonical:invalid", "canonical result")
    refmap = {}
    for t in net["tensors"]:
        for nm, ix in zip(t["names"], t["spec"]["idxs"]):
            if nm.startswith("d"):
                refmap[nm] = dict(ix["cm"])
    ref0 = [refmap[n] for n in names0]
    d0 = D.dense_of(r0, ref=ref0)
    nroutes = ch.integer(1, 4, "nroutes")
    distinct = 1
    for k in range(nroutes):
        (r, names), steps = run_route(ch, tensors, f"r{k}")
        if not hasattr(r, "blocks"):
            want = r0.phase_sync().blocks.get((), 0.0)
            require(complex(r) == complex(want), "route:scalar",
                    lambda: f"scalar {r!r} vs canonical {want!r} via {steps}")
            distinct += 1
            ch.label("scalar-final-step")
            continue
        r = N.to_order(r, names, names0)
        require_valid(r, "route:invalid", f"route {steps}")
        require(r.charge == r0.charge, "route:charge",
                lambda: f"{r.charge!r} vs {r0.charge!r} via {steps}")
        require(list(r.duals) == list(r0.duals), "route:duals", f"{steps}")
        require(GR.labels_of(r) == GR.labels_of(r0), "route:labels",
                lambda: f"{GR.labels_of(r)} vs canonical "
                        f"{GR.labels_of(r0)} via {steps}")
        dense_equal(D.dense_of(r, ref=ref0), d0, "route:value",
                    what=f"route {steps}")
        distinct += 1
    nodd = N.n_odd(net)
    odd_bond = any(
        G.parity(symm, c)
        for t in net["tensors"]
        for nm, ix in zip(t["names"], t["spec"]["idxs"]) if nm.startswith("b")
        for c in ix["cm"]
    )
    ch.label(f"topology={net['topology']}")
    ch.label(f"n_odd={nodd}")
    ch.label(f"symm={symm}")
    if any(t["conj"] for t in net["tensors"]):
        ch.label("conjugated-tensor")
    ch.mark_nontrivial((nodd >= 2 or (nodd >= 1 and odd_bond))
                       and distinct >= 2)


def law_swap(ch):
    """two tensors: operand order, relisting, pre-transposes (dense check of
    a single contraction against the swapped one)"""
    from ..network import network_specs

    net = ch.draw(network_specs(topologies=["pair", "pair2"]), "net")
    X, Y = N.build_network(net)
    mode = ch.choice(["blockwise", "fused"], "mode")
    r0, names0 = N.contract_pair(X, Y, mode=mode)
    r1, names1 = N.contract_pair(X, Y, mode=mode, swap=True)
    r1 = N.to_order(r1, names1, names0)
    refmap = {}
    for t in net["tensors"]:
        for nm, ix in zip(t["names"], t["spec"]["idxs"]):
            refmap[nm] = dict(ix["cm"])
    ref = [refmap[n] for n in names0]
    require(GR.labels_of(r1) == GR.labels_of(r0), "swap:labels",
            lambda: f"{GR.labels_of(r1)} vs {GR.labels_of(r0)}")
    dense_equal(D.dense_of(r1, ref=ref), D.dense_of(r0, ref=ref),
                "swap:value", what="b.a transposed back vs a.b")
    ch.label(f"n_odd={N.n_odd(net)}")
    ch.mark_nontrivial(N.n_odd(net) >= 1)


LAWS = [
    Law("routes", law_routes, quick=2400, thorough=40000,
        doc="canonical route vs 1-4 drawn alternative routes on networks of "
            "2-4 tensors"),
    Law("swap", law_swap, quick=800, thorough=12000,
        doc="tensordot(a,b) vs tensordot(b,a) brought back by the fermionic "
            "transpose"),
]

"""C20 — element type and precision are preserved."""

import warnings

import numpy as np

from .. import gen, ops
from ..compare import dense_equal
from ..core import Discrepancy, Law, attempt, must, require
from ..model import dense as D
from ..model import groups as G

PROPERTY_ID = "C20"
RULE = (
    "dtype in {float32, float64, complex64, complex128} x the whole "
    "operation catalogue (vf/ops.py; 1-3 chained operations with generated "
    "partners of the same dtype) x sparse arrays (so that zero blocks have to "
    "be created by fuse in both strategies, to_dense, fill_missing_blocks, "
    "fused-mode contraction, reshape) x abelian / fermionic; numpy "
    "ComplexWarning is turned into an error. Oracle: a dtype table (result "
    "blocks keep the input dtype; singular values, eigenvalues, norms, abs, "
    "max/min have the matching real dtype; isfinite is boolean; Python int / "
    "float scalars do not upcast) plus exact value checks against the dense "
    "oracle for the zero-filling operations on integer-valued single-"
    "precision and complex data (imaginary parts must survive). "
    "Non-trivial: dtype != float64 and >=1 zero block had to be created."
)
ASSUMPTIONS = [
    "integer-valued data: exact in float32, so value comparisons are exact",
]
DTYPES = ("float32", "float64", "complex64", "complex128")
REAL_OF = {"float32": "float32", "float64": "float64",
           "complex64": "float32", "complex128": "float64"}
ALLSYMS = ("Z2", "U1", "Z2Z2", "U1U1", "Z4")


def block_dtypes(x):
    return {str(np.asarray(b).dtype) for b in x.blocks.values()}


def expect_dtype(opname, dtype, result, where, args=None):
    import symmray as sr

    real = REAL_OF[dtype]
    sig = f"{opname}:dtype"

    def arr(y, want, what):
        got = block_dtypes(y)
        want_set = set(want) if isinstance(want, (set, tuple)) else {want}
        want = sorted(want_set)[0] if len(want_set) == 1 else want
        require(got <= want_set, sig,
                lambda: f"{what}: blocks {sorted(got)} but data was {dtype} "
                        f"(expected {want}) {where}")
        if y.blocks and isinstance(y, sr.AbelianArray):
            require(y.dtype in want_set or y.dtype in got, sig + ":property",
                    lambda: f"x.dtype={y.dtype}")

    if opname in ("svd", "svd_truncated"):
        u, s, vh = result
        arr(u, dtype, "U")
        arr(vh, dtype, "VH")
        if s is not None:
            arr(s, real, "singular values")
    elif opname == "eigh":
        el, ev = result
        arr(el, real, "eigenvalues")
        arr(ev, dtype, "eigenvectors")
    elif opname == "isfinite":
        arr(result, "bool", "isfinite")
    elif opname in ("abs", "sqrt_abs"):
        arr(result, real, opname)
    elif opname in ("norm", "max", "min"):
        # scalars: only the kind is claimed (a real number), not the
        # precision of a reduction's result
        got = np.asarray(result).dtype
        require(got.kind in "fiu", sig,
                lambda: f"{opname} returned {got} for {dtype} data {where}")
    elif opname == "sum":
        got = np.asarray(result).dtype
        require(got.kind == ("c" if "complex" in dtype else "f"), sig,
                lambda: f"sum returned {got} for {dtype} data {where}")
    elif opname == "to_dense":
        got = str(np.asarray(result).dtype)
        require(got == dtype, sig, lambda: f"to_dense gave {got} {where}")
    elif opname in ("item", "allclose_self", "trace"):
        if opname == "trace" and hasattr(result, "dtype") and \
                "complex" in dtype:
            got = np.asarray(result).dtype
            require(got.kind == "c", sig, lambda: f"trace gave {got} {where}")
    elif opname == "multiply_diagonal":
        # the diagonal vector of the catalogue is float64: numpy promotion of
        # the two operand dtypes is the expected result type
        prom = str(np.result_type(dtype, "float64"))
        if isinstance(args, dict) and not args.get("sizes"):
            # a vector without any block has no element type of its own:
            # blocks of the array's type or of the promoted type are both
            # "the type of the data they join"
            arr(result, (dtype, prom), opname)
        else:
            arr(result, prom, opname)
    else:
        for y in ops.arrays_in(result):
            arr(y, dtype, opname)
        if not ops.arrays_in(result) and hasattr(result, "dtype") and \
                opname in ("tensordot", "matmul", "einsum",
                           "contract_with_conj") and "complex" in dtype:
            got = np.asarray(result).dtype
            require(got.kind == "c", sig,
                    lambda: f"scalar result {got} {where}")


def law_catalogue(ch):
    dtype = ch.choice(DTYPES, "dtype")
    ferm = ch.boolean("ferm")
    spec = ch.draw(gen.array_specs(
        ferm=ferm, syms=gen.SYMS4 if ferm else ALLSYMS, max_ndim=4,
        max_size=2, dtype=dtype, allow_empty=False), "x")
    x = gen.build(spec)
    if not x.blocks:
        return
    require(block_dtypes(x) == {dtype}, "harness", "built dtype")
    done = []
    with warnings.catch_warnings():
        warnings.simplefilter("error", np.exceptions.ComplexWarning)
        for step in range(ch.integer(1, 3, "nsteps")):
            t = f"s{step}"
            op, args = ops.draw_op(ch, x, t, weights={
                "fuse": 4, "reshape": 3, "tensordot": 4, "to_dense": 2,
                "svd": 2, "qr": 2, "eigh": 3, "svd_truncated": 2, "add": 2,
                "scalar": 2, "unfuse": 3, "expand_dims": 2})
            if op is None:
                break
            if op.name == "scalar" and isinstance(args["s"], complex):
                continue
            try:
                ok, r = attempt(op.apply, x, args)
            except np.exceptions.ComplexWarning as w:
                raise Discrepancy(f"{op.name}:imaginary-part-discarded",
                                  f"{w} after {done + [op.name]}")
            if not ok:
                if isinstance(r, np.exceptions.ComplexWarning):
                    raise Discrepancy(
                        f"{op.name}:imaginary-part-discarded",
                        f"{r} after {done + [op.name]}")
                ch.count(f"raised:{op.name}")
                continue
            expect_dtype(op.name, dtype, r, f"after {done + [op.name]}",
                         args=args)
            done.append(op.name)
            nxt = [y for y in ops.arrays_in(r) if ops.is_arr(y)]
            if nxt and op.group != "linalg" and op.name not in (
                    "isfinite", "abs", "sqrt_abs", "multiply_diagonal") \
                    and nxt[0].ndim <= 5 \
                    and nxt[0].blocks:
                x = nxt[0]
    ch.label(f"dtype={dtype}")
    for o in set(done):
        ch.label(f"op={o}")
    ch.mark_nontrivial(dtype != "float64" and gen.is_sparse(spec)
                       and bool(done))


def law_zero_fill(ch):
    """operations that create zero blocks: dtype of every block and exact
    values (incl. imaginary parts) against the dense oracle"""
    import symmray as sr

    dtype = ch.choice(DTYPES, "dtype")
    ferm = ch.boolean("ferm")
    spec = ch.draw(gen.array_specs(
        ferm=ferm, syms=gen.SYMS4 if ferm else ALLSYMS, min_ndim=2,
        max_ndim=4, max_size=2, dtype=dtype, allow_empty=False,
        sparsity="sparse", phases=[]), "x")
    x = gen.build(spec)
    if not x.blocks:
        return
    dx = D.dense_of(x)
    created = False
    with warnings.catch_warnings():
        warnings.simplefilter("error", np.exceptions.ComplexWarning)
        try:
            # to_dense
            d = must(x.to_dense, what="to_dense")
            require(str(d.dtype) == dtype, "to_dense:dtype", f"{d.dtype}")
            dense_equal(d, dx, "to_dense:value", what="to_dense")
            # fill_missing_blocks
            y = x.copy()
            must(y.fill_missing_blocks, what="fill_missing_blocks")
            if len(y.blocks) > len(x.blocks):
                created = True
            require(block_dtypes(y) == {dtype}, "fill_missing_blocks:dtype",
                    lambda: f"{sorted(block_dtypes(y))} for {dtype} data")
            dense_equal(D.dense_of(y), dx, "fill_missing_blocks:value")
            # fuse with both strategies
            nd = x.ndim
            perm = list(ch.perm(nd, "perm"))
            k = ch.integer(2, nd, "k")
            grp = tuple(perm[:k])
            outs = {}
            if ferm:
                outs["auto"] = must(x.fuse, grp, what="fuse")
            else:
                for m in ("insert", "concat"):
                    outs[m] = must(x.fuse, grp, mode=m, what=f"fuse[{m}]")
            for m, f in outs.items():
                require(block_dtypes(f) == {dtype}, f"fuse[{m}]:dtype",
                        lambda: f"{sorted(block_dtypes(f))} for {dtype} data")
                nnz_in = sum(int(np.count_nonzero(b))
                             for b in x.blocks.values())
                nnz_out = sum(int(np.count_nonzero(b))
                              for b in f.blocks.values())
                require(nnz_in == nnz_out, f"fuse[{m}]:content",
                        f"{nnz_in} vs {nnz_out} non-zeros")
                if "complex" in dtype:
                    im_in = sorted(np.concatenate(
                        [np.abs(np.imag(b)).ravel()
                         for b in x.blocks.values()]).tolist())
                    im_out = np.concatenate(
                        [np.abs(np.imag(b)).ravel()
                         for b in f.blocks.values()])
                    im_out = sorted(im_out[im_out != 0].tolist())
                    require([v for v in im_in if v] == im_out,
                            f"fuse[{m}]:imaginary-part",
                            "imaginary parts changed")
                sizes_in = sum(np.size(b) for b in x.blocks.values())
                sizes_out = sum(np.size(b) for b in f.blocks.values())
                if sizes_out > sizes_in:
                    created = True
                u = must(f.unfuse_all, what="unfuse_all")
                require(block_dtypes(u) == {dtype}, f"unfuse[{m}]:dtype", "")
            # fused-mode contraction with the conjugate legs
            ncon = ch.integer(1, nd - 1, "ncon")
            axes = perm[:ncon]
            ps = ops.partner_spec(
                ch, x, [gen.conj_index_spec(ops.idx_specs_of(x)[i])
                        for i in axes]
                + [ch.draw(gen.index_specs(spec["symm"], max_size=2), "free")],
                "p")
            p = gen.build(ps)
            if p.blocks:
                for mode in ("fused", "blockwise"):
                    r = must(sr.tensordot, x, p,
                             (axes, list(range(ncon))), mode=mode,
                             preserve_array=True, what=f"tensordot[{mode}]")
                    require(block_dtypes(r) <= {dtype},
                            f"tensordot[{mode}]:dtype",
                            lambda: f"{sorted(block_dtypes(r))} for {dtype}")
                if not ferm:
                    want = np.tensordot(dx, D.dense_of(p),
                                        axes=(axes, list(range(ncon))))
                    ref = [dict(x.indices[i].chargemap) for i in range(nd)
                           if i not in axes] + [dict(p.indices[-1].chargemap)]
                    dense_equal(D.dense_of(r, ref=ref), want,
                                "tensordot:value", what="fused contraction")
            # reshape (merge everything)
            rs = must(x.reshape, (int(np.prod(x.shape)),), what="reshape")
            require(block_dtypes(rs) == {dtype}, "reshape:dtype",
                    lambda: f"{sorted(block_dtypes(rs))}")
        except np.exceptions.ComplexWarning as w:
            raise Discrepancy("imaginary-part-discarded", str(w))
    ch.label(f"dtype={dtype}")
    ch.label("ferm" if ferm else "abel")
    ch.mark_nontrivial(dtype != "float64" and created)


def law_mixed(ch):
    """arrays whose blocks differ in dtype (as produced by real + complex
    addition): zero-filling operations must keep the imaginary parts"""
    import symmray as sr

    spec = ch.draw(gen.array_specs(
        ferm=False, syms=ALLSYMS, min_ndim=2, max_ndim=4, max_size=2,
        dtype="mixed", allow_empty=False,
        data=ch.choice(["int", "gauss"], "data")), "x")
    x = gen.build(spec)
    dts = {np.asarray(b).dtype for b in x.blocks.values()}
    if len(dts) < 2:
        return
    promoted = str(np.result_type(*dts))
    exact = spec["data"] == "int"
    dx = D.dense_of(x)
    nd = x.ndim
    perm = list(ch.perm(nd, "perm"))
    k = ch.integer(2, nd, "k")
    with warnings.catch_warnings():
        warnings.simplefilter("error", np.exceptions.ComplexWarning)
        try:
            for m in ("insert", "concat", "auto"):
                f = must(x.fuse, tuple(perm[:k]), mode=m, what=f"fuse[{m}]")
                u = must(f.unfuse_all, what="unfuse_all")
                inv = [(perm[:k] + [a for a in range(nd)
                                    if a not in perm[:k]]).index(a)
                       for a in range(nd)]
                pos = min(perm[:k])
                before = [a for a in range(pos) if a not in perm[:k]]
                after = [a for a in range(pos, nd) if a not in perm[:k]]
                order = before + perm[:k] + after
                back = must(u.transpose, tuple(order.index(a)
                                               for a in range(nd)),
                            what="transpose")
                dense_equal(D.dense_of(back), dx, f"mixed:fuse[{m}]:value",
                            what="fuse/unfuse round trip of mixed-dtype "
                                 "blocks")
            d = must(x.to_dense, what="to_dense")
            dense_equal(d, dx, "mixed:to_dense:value")
            r = must(sr.tensordot, x, x.conj(), (perm[:k], perm[:k]),
                     mode="fused", preserve_array=True, what="tensordot")
            want = np.tensordot(dx, np.conj(dx), axes=(perm[:k], perm[:k]))
            rest = [a for a in range(nd) if a not in perm[:k]]
            ref = [dict(x.indices[a].chargemap) for a in rest] * 2
            eps_x = max(float(np.finfo(dt).eps) for dt in dts)
            dense_equal(D.dense_of(r, ref=ref), want, "mixed:tensordot:value",
                        exact=exact, K=64, eps=eps_x,
                        scale=float(np.abs(want).max() or 1)
                        if want.size else 1.0)
        except np.exceptions.ComplexWarning as w:
            raise Discrepancy("mixed:imaginary-part-discarded", str(w))
    ch.mark_nontrivial(True)


def law_linalg(ch):
    """decompositions on generated matrices (Hermitian with size-one
    sectors, square systems, general) at all four dtypes"""
    import symmray as sr

    dtype = ch.choice(DTYPES, "dtype")
    ferm = ch.boolean("ferm")
    kind = ch.choice(["eigh", "eigh", "qr", "svd", "svd_truncated", "solve"],
                     "kind")
    syms = gen.SYMS4 if ferm else ALLSYMS
    with warnings.catch_warnings():
        warnings.simplefilter("error", np.exceptions.ComplexWarning)
        if kind == "eigh":
            spec = ch.draw(gen.matrix_specs(ferm=ferm, hermitian=True,
                                            syms=syms, dtype=dtype,
                                            max_size=3, lazy=False), "m")
            x = gen.build(spec)
            if not x.blocks:
                return
            if ferm:
                x = must(lambda: x + x.H, what="x+x.H")
            r = must(sr.linalg.eigh, x, what="eigh")
            expect_dtype("eigh", dtype, r, "eigh")
            el, ev = r
            rec = must(lambda: sr.multiply_diagonal(ev, el, 1) @ ev.H,
                       what="reconstruct")
            require(block_dtypes(rec) <= {dtype}, "eigh:reconstruction-dtype",
                    lambda: f"{sorted(block_dtypes(rec))} for {dtype} data")
        elif kind == "solve":
            spec = ch.draw(gen.matrix_specs(ferm=False, square=True,
                                            syms=ALLSYMS, dtype=dtype), "a")
            a = gen.build(spec)
            ix0 = spec["idxs"][0]
            c_b = ch.choice(sorted(ix0["cm"]), "b-sector")
            bspec = ch.draw(gen.array_specs(
                symm=spec["symm"], ferm=False, idxs=[ix0],
                charge=G.signed(spec["symm"], c_b, ix0["dual"]),
                dyn=spec["dyn"], dtype=dtype, data="gauss"), "b")
            b = gen.build(bspec)
            if not a.blocks or not b.blocks:
                return
            r = must(sr.linalg.solve, a, b, what="solve")
            expect_dtype("solve", dtype, r, "solve")
        else:
            spec = ch.draw(gen.matrix_specs(ferm=ferm, syms=syms, dtype=dtype,
                                            max_size=3), "m")
            x = gen.build(spec)
            if not x.blocks:
                return
            if kind == "qr":
                r = must(sr.linalg.qr, x, stabilized=ch.boolean("stab"),
                         what="qr")
            elif kind == "svd":
                r = must(sr.linalg.svd, x, what="svd")
            else:
                r = must(sr.linalg.svd_truncated, x, max_bond=ch.choice(
                    [-1, 1, 2], "max_bond"), cutoff=ch.choice(
                    [-1.0, 1e-6], "cutoff"), absorb=ch.choice(
                    [None, 0, -1, 1], "absorb"), what="svd_truncated")
            expect_dtype(kind, dtype, r, kind)
    ch.label(f"kind={kind}")
    ch.label(f"dtype={dtype}")
    ch.mark_nontrivial(dtype != "float64")


LAWS = [
    Law("catalogue", law_catalogue, quick=3000, thorough=50000,
        doc="dtype table over the operation catalogue (1-3 chained ops)"),
    Law("zero_fill", law_zero_fill, quick=1600, thorough=24000,
        doc="to_dense / fill_missing_blocks / fuse (insert, concat) / fused "
            "contraction / reshape on sparse single-precision and complex "
            "data: dtype of every block and exact values"),
    Law("linalg", law_linalg, quick=1200, thorough=16000,
        doc="eigh / qr / svd / svd_truncated / solve on generated matrices "
            "(size-one sectors included) at all four dtypes"),
    Law("mixed", law_mixed, quick=800, thorough=10000,
        doc="blocks of mixed real/complex dtype through fuse (all "
            "strategies), to_dense, fused contraction: imaginary parts kept"),
]

"""C11 — decompositions reconstruct the input from properly structured
factors."""

import numpy as np
from hypothesis import strategies as st

from .. import gen
from ..compare import dense_equal, index_struct
from ..core import Discrepancy, Law, attempt, must, require
from ..model import dense as D
from ..model import groups as G
from ..model.audit import require_valid

PROPERTY_ID = "C11"
RULE = (
    "Hypothesis-generated symmetric matrices: generated directly (row/column "
    "tables with 1-3 charges, block sizes 1-4: tall, wide, square, 1x1, "
    "exactly rank-deficient integer outer products, missing blocks) or by "
    "fusing rank 3-4 arrays; abelian (incl. Z4) and fermionic; every "
    "direction pattern and total charge (even/odd); real/complex Gaussian "
    "data; pending fermionic signs. Validity predicates on the factors "
    "(orthonormal Q/U columns and VH rows per block, upper-triangular R with "
    "real non-negative diagonal when stabilised, s >= 0 non-increasing per "
    "charge, bond index: one charge per input block, same table on both "
    "factors, opposite directions, factor charges combining to the input's) "
    "plus reconstruction through the library's own contraction; Hermitian "
    "eigendecomposition; linear solve (a @ x == b, charge of x). Also via "
    "autoray dispatch. Non-trivial: >=2 blocks and (a non-square or rank-"
    "deficient block, or odd charge, or a dual second leg)."
)
ASSUMPTIONS = [
    "tolerance 64*eps*K*scale (K = contracted dimension) for reconstruction "
    "and orthonormality",
    "for fermionic factors structural predicates are evaluated on the stored "
    "blocks (a sector-wide sign carried lazily by R / VH is part of the "
    "contraction rule)",
]
ALLSYMS = ("Z2", "U1", "Z2Z2", "U1U1", "Z4")
TOL = 1e-9


@st.composite
def matrix_cases(draw):
    if draw(st.integers(0, 3)) == 0:
        ferm = draw(st.booleans())
        return {"kind": "fused", "case": draw(gen.fused_matrix_specs(
            ferm=ferm, syms=gen.SYMS4 if ferm else ALLSYMS))}
    ferm = draw(st.booleans())
    return {"kind": "direct", "spec": draw(gen.matrix_specs(
        ferm=ferm, syms=gen.SYMS4 if ferm else ALLSYMS))}


def build_matrix(mc):
    if mc["kind"] == "fused":
        return gen.build_fused_matrix(mc["case"]), mc["case"]["x"]
    return gen.build(mc["spec"]), mc["spec"]


def blocks_raw(x):
    return {s: np.asarray(b) for s, b in x.blocks.items()}


def check_close(a, b, sig, what, scale=None):
    dense_equal(a, b, sig, exact=False, what=what, scale=scale,
                K=max(8, max(a.shape) if a.ndim else 1))


def dense_like(y, x, sig):
    """dense of y in x's tables (same legs expected)"""
    ref = [dict(ix.chargemap) for ix in x.indices]
    return D.dense_of(y, ref=ref)


def check_bond(x, left, right, sig):
    """bond index: one charge per input block, same table on both factors,
    opposite directions"""
    symm = D.symm_of(x)
    bl, br = left.indices[1], right.indices[0]
    require(dict(bl.chargemap) == dict(br.chargemap), sig + ":bond-tables",
            lambda: f"{bl.chargemap} vs {br.chargemap}")
    require(bl.dual != br.dual, sig + ":bond-directions",
            f"both {bl.dual}")
    require(len(bl.chargemap) == len(x.blocks), sig + ":bond-charges",
            lambda: f"{len(bl.chargemap)} bond charges for {len(x.blocks)} "
                    "input blocks")
    tot = G.combine(symm, left.charge, right.charge)
    require(tot == x.charge, sig + ":charges",
            lambda: f"factor charges {left.charge!r}+{right.charge!r} != "
                    f"{x.charge!r}")
    require(index_struct(left.indices[0]) == index_struct(x.indices[0]),
            sig + ":left-leg", "")
    require(index_struct(right.indices[1]) == index_struct(x.indices[1]),
            sig + ":right-leg", "")


def orthonormal_cols(b, sig, what):
    g = b.conj().T @ b
    check_close(g, np.eye(g.shape[0]), sig, what, scale=1.0)


def law_qr(ch):
    import autoray as ar
    import symmray as sr

    mc = ch.draw(matrix_cases(), "m")
    x, spec = build_matrix(mc)
    if x is None or not x.blocks:
        return
    stab = ch.boolean("stabilized")
    via = ch.choice(["sr", "ar"], "via")
    if via == "sr":
        q, r = must(sr.linalg.qr, x, what="qr",
                    **({"stabilized": True} if stab else {}))
    elif stab:
        q, _, r = must(ar.do, "qr_stabilized", x, what="qr_stabilized")
    else:
        q, r = must(ar.do, "linalg.qr", x, what="linalg.qr")
    require_valid(q, "qr:invalid", "Q")
    require_valid(r, "qr:invalid", "R")
    check_bond(x, q, r, "qr")
    rec = must(lambda: q @ r, what="q@r")
    dx = D.dense_of(x)
    check_close(dense_like(rec, x, "qr"), dx, "qr:reconstruction", "q@r",
                scale=float(np.abs(dx).max() or 1))
    for s_, b in blocks_raw(q).items():
        orthonormal_cols(b, "qr:q-not-orthonormal", f"Q block {s_}")
    for s_, b in blocks_raw(r).items():
        low = np.tril(b, -1)
        require(np.all(np.abs(low) <= TOL * (np.abs(b).max() + 1)),
                "qr:r-not-triangular", f"R block {s_}")
        if stab:
            d = np.diagonal(b)
            t = TOL * (np.abs(b).max() + 1)
            pos = np.all(np.real(d) >= -t)
            if spec["ferm"]:
                # the fermionic wrapper puts a sign on the odd sectors of a
                # dual inner bond (kept pending or multiplied in): the
                # diagonal is non-negative up to one sign per block
                pos = pos or np.all(np.real(d) <= t)
            require(np.all(np.abs(np.imag(d)) <= t) and pos,
                    "qr:stabilised-diagonal",
                    lambda: f"R block {s_} diagonal {d}")
    label(ch, x, spec, mc)


def law_svd(ch):
    import autoray as ar
    import symmray as sr

    mc = ch.draw(matrix_cases(), "m")
    x, spec = build_matrix(mc)
    if x is None or not x.blocks:
        return
    via = ch.choice(["sr", "ar"], "via")
    if via == "sr":
        u, s, vh = must(sr.linalg.svd, x, what="svd")
    else:
        u, s, vh = must(ar.do, "linalg.svd", x, what="linalg.svd")
    require_valid(u, "svd:invalid", "U")
    require_valid(vh, "svd:invalid", "VH")
    require_valid(s, "svd:invalid", "s")
    check_bond(x, u, vh, "svd")
    require(set(s.blocks) == set(u.indices[1].chargemap), "svd:s-charges",
            lambda: f"{sorted(s.blocks)} vs {sorted(u.indices[1].chargemap)}")
    for c, b in s.blocks.items():
        b = np.asarray(b)
        require(b.size == u.indices[1].chargemap[c], "svd:s-size", f"{c!r}")
        require(np.all(b >= 0), "svd:s-negative", f"{c!r}: {b}")
        require(np.all(np.diff(b) <= TOL * (b.max() + 1)), "svd:s-not-sorted",
                f"{c!r}: {b}")
        require(b.dtype.kind == "f", "svd:s-dtype", f"{b.dtype}")
    rec = must(lambda: u @ sr.multiply_diagonal(vh, s, 0), what="u s vh")
    dx = D.dense_of(x)
    check_close(dense_like(rec, x, "svd"), dx, "svd:reconstruction", "u s vh",
                scale=float(np.abs(dx).max() or 1))
    for s_, b in blocks_raw(u).items():
        orthonormal_cols(b, "svd:u-not-orthonormal", f"U block {s_}")
    for s_, b in blocks_raw(vh).items():
        orthonormal_cols(b.conj().T, "svd:vh-not-orthonormal", f"VH block {s_}")
    label(ch, x, spec, mc)


def law_eigh(ch):
    import autoray as ar
    import symmray as sr

    ferm = ch.boolean("ferm")
    spec = ch.draw(gen.matrix_specs(ferm=ferm, hermitian=True,
                                    syms=gen.SYMS4 if ferm else ALLSYMS), "m")
    x = gen.build(spec)
    if not x.blocks:
        return
    if ferm:
        x = must(lambda: x + x.H, what="x+x.H")
        if ch.boolean("relazy"):
            x = must(x.phase_flip, 0, what="phase_flip")
            x = must(x.phase_flip, 0, what="phase_flip")
            x = must(x.phase_global, what="phase_global").phase_global()
    via = ch.choice(["sr", "ar"], "via")
    if via == "sr":
        el, ev = must(sr.linalg.eigh, x, what="eigh")
    else:
        el, ev = must(ar.do, "linalg.eigh", x, what="linalg.eigh")
    require_valid(ev, "eigh:invalid", "eigenvectors")
    require_valid(el, "eigh:invalid", "eigenvalues")
    rec = must(lambda: sr.multiply_diagonal(ev, el, 1) @ ev.H, what="V L V^H")
    dx = D.dense_of(x)
    check_close(dense_like(rec, x, "eigh"), dx, "eigh:reconstruction",
                "V L V^H", scale=float(np.abs(dx).max() or 1))
    for s_, b in blocks_raw(ev).items():
        orthonormal_cols(b, "eigh:vectors-not-unitary", f"block {s_}")
        require(b.shape[0] == b.shape[1], "eigh:vectors-not-square", f"{s_}")
    for c, b in el.blocks.items():
        require(np.asarray(b).dtype.kind == "f", "eigh:values-dtype",
                f"{np.asarray(b).dtype}")
    for l in gen.spec_summary(spec):
        ch.label(l)
    ch.mark_nontrivial(len(x.blocks) >= 2)


def law_solve(ch):
    import autoray as ar
    import symmray as sr

    ferm = ch.boolean("ferm")
    spec = ch.draw(gen.matrix_specs(ferm=ferm, square=True,
                                    syms=gen.SYMS4 if ferm else ALLSYMS), "a")
    a = gen.build(spec)
    symm = spec["symm"]
    if not a.blocks:
        return
    ix0 = spec["idxs"][0]
    # right-hand side: a rank-1 array on a's row leg; one sector is valid
    c_b = ch.choice(sorted(ix0["cm"]), "b-sector")
    qb = G.signed(symm, c_b, ix0["dual"])
    bspec = ch.draw(gen.array_specs(
        symm=symm, ferm=ferm, idxs=[ix0], charge=qb, dyn=spec["dyn"],
        dtype=spec["dtype"], data="gauss",
        label=(spec.get("oddpos", 0) or 0) + 100 if ferm else None), "b")
    b = gen.build(bspec)
    if not b.blocks:
        return
    via = ch.choice(["sr", "ar"], "via")
    odd_matrix = ferm and G.parity(symm, a.charge) == 1
    try:
        _check_solve(ch, a, b, spec, ix0, symm, via)
    except Discrepancy as d:
        if odd_matrix:
            # one input class, one signature (open known finding): a
            # fermionic matrix of odd parity
            raise Discrepancy("solve:fermionic-odd-matrix",
                              f"[{d.sig}] {d.msg}") from None
        raise
    for l in gen.spec_summary(spec):
        ch.label(l)
    if odd_matrix:
        ch.label("odd-matrix")
    ch.mark_nontrivial(len(a.blocks) >= 2 or bool(spec.get("phases")))


def _check_solve(ch, a, b, spec, ix0, symm, via):
    import autoray as ar
    import symmray as sr

    if via == "sr":
        x = must(sr.linalg.solve, a, b, what="solve")
    else:
        x = must(ar.do, "linalg.solve", a, b, what="linalg.solve")
    require_valid(x, "solve:invalid", "solution")
    want_charge = G.combine(symm, b.charge, G.neg(symm, a.charge))
    require(x.charge == want_charge, "solve:charge",
            lambda: f"{x.charge!r} vs b-a = {want_charge!r}")
    require(x.ndim == 1, "solve:rank", f"{x.ndim}")
    require(index_struct(x.indices[0]) == index_struct(a.indices[1].conj()),
            "solve:leg", "solution leg is not contractible with a's second "
            "leg")
    lhs = must(lambda: a @ x, what="a@x")
    db = D.dense_of(b)
    check_close(D.dense_of(lhs, ref=[dict(ix0["cm"])]), db, "solve:residual",
                "a@x vs b", scale=float(np.abs(db).max() or 1))


def label(ch, x, spec, mc):
    symm = spec["symm"]
    for l in gen.spec_summary(spec):
        ch.label(l)
    ch.label(f"matrix={mc['kind']}")
    shapes = [np.asarray(b).shape for b in x.blocks.values()]
    nonsq = any(s[0] != s[1] for s in shapes)
    if nonsq:
        ch.label("non-square-block")
    deficient = spec.get("data") == "lowrank"
    if deficient:
        ch.label("rank-deficient")
    odd = spec["ferm"] and G.parity(symm, spec["charge"])
    ch.mark_nontrivial(
        len(shapes) >= 2 and (nonsq or deficient or odd or x.indices[1].dual))


LAWS = [
    Law("qr", law_qr, quick=1600, thorough=24000,
        doc="QR: reconstruction, orthonormal Q blocks, triangular R "
            "(stabilised diagonal), bond structure, charges"),
    Law("svd", law_svd, quick=1600, thorough=24000,
        doc="SVD: reconstruction, orthonormal U/VH blocks, s >= 0 sorted, "
            "bond structure"),
    Law("eigh", law_eigh, quick=1000, thorough=14000,
        doc="Hermitian eigendecomposition reconstructs; unitary blocks"),
    Law("solve", law_solve, quick=1000, thorough=14000,
        doc="solve: right charge, contractible leg, a @ x == b"),
]

"""C13 — truncated SVD keeps exactly what its cutoff and bond limit
prescribe."""

import numpy as np

from .. import gen
from ..compare import dense_equal, index_struct
from ..core import Discrepancy, Law, must, require
from ..model import dense as D
from ..model import groups as G
from ..model.audit import require_valid
from .c11 import ALLSYMS, build_matrix, matrix_cases

PROPERTY_ID = "C13"
RULE = (
    "Matrices as in C11 with >=1 stored block (abelian incl. Z4, fermionic; "
    "direct or fused; Gaussian and exactly rank-deficient blocks); all six "
    "cutoff modes; the cutoff is derived from the actual spectrum: none, "
    "below the smallest value, between two consecutive values / partial sums "
    "at a drawn rank, just under and well beyond the total weight; max_bond "
    "in {-1, 1..rank, rank+2}; every absorb option; also via autoray. "
    "Oracle: counting predicates computed from the untruncated spectrum "
    "(kept >= discarded; per-charge prefixes; |K| = min(rule count, bond "
    "limit) with an epsilon band at the threshold; monotone in the cutoff; "
    "no cutoff: |K| = min(limit, N)), squared reconstruction error == "
    "discarded squared weight, all absorb options give the same product, "
    "factors valid with bond tables equal to the kept counts. A separate law "
    "builds exact ties (duplicated blocks). Non-trivial: 0 < |K| < N, or a "
    "whole charge removed, or a cutoff beyond the total weight."
)
ASSUMPTIONS = [
    "the untruncated svd is pinned by C11/C12; its spectrum is the reference",
    "beyond the total weight keeping 0 or 1 values is accepted",
    "values within 1e-9*sigma_max of the threshold may fall on either side",
]
EPS = 1e-9


def spectrum(s):
    return {c: np.asarray(b, dtype=float) for c, b in s.blocks.items()}


def cutoff_for(kind, mode, allv, t):
    """cutoff such that (by the documented rule) exactly t smallest values
    are trimmed for kind == 'between'"""
    asc = np.sort(allv)
    N = len(asc)
    if kind == "none":
        return -1.0 if t % 2 else 0.0
    if mode in (1, 2):
        scale = 1.0 if mode == 1 else asc[-1]
        if kind == "below":
            thr = asc[0] * 0.5
        elif kind == "between":
            t = min(max(t, 1), N - 1) if N > 1 else 0
            thr = 0.5 * (asc[t - 1] + asc[t]) if N > 1 else asc[0] * 0.5
        elif kind == "under-total":
            thr = asc[-1] * 0.999
        else:
            thr = asc[-1] * 7.0
        return float(thr / scale) if scale > 0 else 1.0
    p = 2 if mode in (3, 4) else 1
    cum = np.concatenate([[0.0], np.cumsum(asc ** p)])
    total = cum[-1]
    scale = total if mode in (4, 6) else 1.0
    if kind == "below":
        c = cum[1] * 0.5
    elif kind == "between":
        t = min(max(t, 0), N - 1)
        c = 0.5 * (cum[t] + cum[t + 1])
    elif kind == "under-total":
        c = total * 0.9999
    else:
        c = total * 5.0 + 1.0
    return float(c / scale) if scale > 0 else 1.0


def rule_count_band(mode, cutoff, allv):
    """(lo, hi): admissible numbers of kept values by the rule alone"""
    desc = np.sort(allv)[::-1]
    N = len(desc)
    smax = desc[0] if N else 0.0
    if mode in (1, 2):
        thr = cutoff if mode == 1 else cutoff * smax
        tol = EPS * max(smax, thr, 1e-300)
        return int(np.sum(desc > thr + tol)), int(np.sum(desc >= thr - tol))
    p = 2 if mode in (3, 4) else 1
    asc = desc[::-1]
    cum = np.cumsum(asc ** p)  # cum[t-1] = weight of the t smallest
    total = cum[-1] if N else 0.0
    c = cutoff * total if mode in (4, 6) else cutoff
    # trimmed t: largest t with cum[t-1] < c.  The partial sums are
    # accumulated from the small end, so they are accurate relative to
    # themselves: the band is relative to c, not to the total weight (a
    # group of tiny values must not disappear in the rounding of the total)
    t_hi = int(np.sum(cum < c * (1 + EPS)))  # most that may be trimmed
    t_lo = int(np.sum(cum < c * (1 - EPS)))  # least that must be trimmed
    lo, hi = N - t_hi, N - t_lo
    # values that tie with the smallest kept value may be kept as well (the
    # rule cannot tell them apart); this is not the bond-limit tie finding
    if 1 <= hi < N:
        vtol = EPS * max(smax, 1e-300)
        hi += int(np.sum(np.abs(desc[hi:] - desc[hi - 1]) <= vtol))
    return lo, hi


DOCUMENTED_DEFAULTS = {"cutoff": -1.0, "cutoff_mode": 4, "max_bond": -1,
                       "absorb": 0, "renorm": 0}


def run_truncated(x, via, **kw):
    import autoray as ar
    import symmray as sr

    # an argument equal to its documented default is left out, so that the
    # defaults themselves are exercised
    kw = {k: v for k, v in kw.items()
          if not (k in DOCUMENTED_DEFAULTS and v is not None
                  and type(v) is type(DOCUMENTED_DEFAULTS[k])
                  and v == DOCUMENTED_DEFAULTS[k])}

    if via == "ar":
        return must(ar.do, "svd_truncated", x, what="svd_truncated", **kw)
    return must(sr.linalg.svd_truncated, x, what="svd_truncated", **kw)


def kept_spectrum(x, via, cutoff, mode, max_bond):
    U, s, VH = run_truncated(x, via, cutoff=cutoff, cutoff_mode=mode,
                             max_bond=max_bond, absorb=None)
    return U, s, VH


def check_truncation(ch, x, full, mode, cutoff, max_bond, via, sig="trunc"):
    import symmray as sr

    allv = np.concatenate(list(full.values()))
    N = len(allv)
    smax = float(allv.max())
    tol = EPS * max(smax, 1e-300)
    U, s, VH = kept_spectrum(x, via, cutoff, mode, max_bond)
    require_valid(U, sig + ":invalid", "U")
    require_valid(VH, sig + ":invalid", "VH")
    require_valid(s, sig + ":invalid", "s")
    kept = spectrum(s)
    # bond tables match the blocks and each other
    bu, bv = U.indices[1], VH.indices[0]
    require(dict(bu.chargemap) == dict(bv.chargemap), sig + ":bond-tables",
            lambda: f"{bu.chargemap} vs {bv.chargemap}")
    require(bu.dual != bv.dual, sig + ":bond-directions", "")
    require({c: len(v) for c, v in kept.items()} == dict(bu.chargemap),
            sig + ":bond-vs-kept",
            lambda: f"table {bu.chargemap}, kept "
                    f"{ {c: len(v) for c, v in kept.items()} }")
    require(all(len(v) > 0 for v in kept.values()), sig + ":empty-charge", "")
    # per charge: a prefix of that charge's (sorted) full spectrum
    for c, v in kept.items():
        require(c in full, sig + ":unknown-charge", f"{c!r}")
        f = full[c]
        require(len(v) <= len(f) and np.all(np.abs(v - f[:len(v)]) <= tol),
                sig + ":not-largest-in-charge",
                lambda: f"charge {c!r}: kept {v}, full {f}")
    nk = int(sum(len(v) for v in kept.values()))
    kvals = np.concatenate(list(kept.values())) if kept else np.zeros(0)
    disc = np.concatenate(
        [full[c][len(kept.get(c, ())):] for c in full]) if full else np.zeros(0)
    what = (f"mode={mode} cutoff={cutoff:.6g} max_bond={max_bond} "
            f"N={N} kept={nk}")
    if cutoff > 0:
        if nk and len(disc):
            require(kvals.min() >= disc.max() - tol, sig + ":kept-below-discarded",
                    lambda: f"{what}: smallest kept {kvals.min()} < largest "
                            f"discarded {disc.max()}")
        lo, hi = rule_count_band(mode, cutoff, allv)
        if hi == 0:
            require(nk in (0, 1), sig + ":beyond-total-weight",
                    lambda: f"{what}: the rule allows nothing")
        else:
            if max_bond > 0:
                lo_b, hi_b = min(lo, max_bond), min(hi, max_bond)
            else:
                lo_b, hi_b = lo, hi
            if nk > hi_b and max_bond > 0 and nk > max_bond and hi >= max_bond:
                # more than the bond limit: only explicable by exact ties at
                # the limit's threshold (open finding) - otherwise a defect
                thr = np.sort(allv)[::-1][max_bond - 1]
                ties = int(np.sum(np.abs(allv - thr) <= tol))
                excess_all_ties = nk <= int(np.sum(allv > thr + tol)) + ties
                if excess_all_ties and ties >= 2:
                    raise Discrepancy(
                        "ties-at-threshold-exceed-max_bond",
                        f"{what}: {ties} values tie at the bond-limit "
                        f"threshold {thr} and all are kept")
            require(lo_b <= nk <= hi_b, sig + ":count",
                    lambda: f"{what}: kept {nk}, rule allows [{lo},{hi}], "
                            f"with the bond limit [{lo_b},{hi_b}]")
    else:
        want = N if max_bond < 0 else min(max_bond, N)
        require(nk == want, sig + ":count-no-cutoff",
                lambda: f"{what}: kept {nk}, expected {want}")
    # reconstruction error == discarded weight
    ref = [dict(ix.chargemap) for ix in x.indices]
    dx = D.dense_of(x)
    if nk:
        prod = must(lambda: U @ sr.multiply_diagonal(VH, s, 0), what="U s VH")
        dp = D.dense_of(prod, ref=ref)
    else:
        dp = np.zeros_like(dx)
    err2 = float(np.sum(np.abs(dx - dp) ** 2))
    w2 = float(np.sum(disc ** 2))
    scale = float(np.sum(allv ** 2))
    require(abs(err2 - w2) <= 1e-8 * max(scale, 1e-300), sig + ":error",
            lambda: f"{what}: |x - U s VH|^2 = {err2}, discarded weight {w2}")
    return nk, kept, dp


def law_truncate(ch):
    import symmray as sr

    mc = ch.draw(matrix_cases(), "m")
    if mc["kind"] == "direct" and mc["spec"]["data"] == "gauss" and \
            ch.boolean("wide-range", p=0.35):
        mc["spec"]["data"] = "wide"
    x, spec = build_matrix(mc)
    if x is None or not x.blocks:
        return
    _, sfull, _ = must(sr.linalg.svd, x, what="svd")
    full = spectrum(sfull)
    allv = np.concatenate(list(full.values()))
    N = len(allv)
    if N == 0 or allv.max() <= 0:
        return
    mode = ch.integer(1, 6, "mode")
    kind = ch.choice(["none", "below", "between", "between", "between",
                      "under-total", "beyond"], "cutoff-kind")
    t = ch.integer(0, max(N - 1, 0), "t")
    cutoff = cutoff_for(kind, mode, allv, t)
    mb = ch.choice(["none", "none", "one", "k", "k", "beyond"], "max_bond-kind")
    max_bond = {"none": -1, "one": 1, "beyond": N + 2}.get(mb)
    if max_bond is None:
        max_bond = ch.integer(1, N, "max_bond")
    via = ch.choice(["sr", "sr", "ar"], "via")
    nk, kept, dp = check_truncation(ch, x, full, mode, cutoff, max_bond, via)
    # monotone in the cutoff
    if cutoff > 0 and ch.boolean("monotone", p=0.5):
        c2 = cutoff * ch.choice([1.5, 3.0, 10.0], "factor")
        _, s2, _ = kept_spectrum(x, via, c2, mode, max_bond)
        nk2 = int(sum(np.size(b) for b in s2.blocks.values()))
        require(nk2 <= nk, "trunc:not-monotone",
                lambda: f"mode={mode} max_bond={max_bond}: cutoff {cutoff:.6g}"
                        f" keeps {nk}, larger cutoff {c2:.6g} keeps {nk2}")
    # absorb options give the same product
    ref = [dict(ix.chargemap) for ix in x.indices]
    if nk:
        for absorb in ch.subset([-1, 0, 1, "left", "both", "right"],
                                "absorbs", min_size=1):
            A, none, B = run_truncated(
                x, via, cutoff=cutoff, cutoff_mode=mode, max_bond=max_bond,
                absorb=absorb)
            require(none is None, "absorb:returns-s", f"{absorb!r}")
            require_valid(A, "absorb:invalid", f"left factor ({absorb!r})")
            require_valid(B, "absorb:invalid", f"right factor ({absorb!r})")
            prod = must(lambda: A @ B, what="A@B")
            dense_equal(D.dense_of(prod, ref=ref), dp, "absorb:product",
                        exact=False, what=f"absorb={absorb!r}",
                        K=max(dp.shape) * 8,
                        scale=float(np.abs(dp).max() or 1))
    for l in gen.spec_summary(spec):
        ch.label(l)
    ch.label(f"mode={mode}")
    ch.label(f"cutoff={kind}")
    ch.label(f"max_bond={mb}")
    removed = len(kept) < len(full)
    if removed:
        ch.label("charge-removed")
    ch.mark_nontrivial(0 < nk < N or removed or kind == "beyond")


def law_ties(ch):
    """exact ties across charges (identical blocks) at the bond threshold"""
    import symmray as sr

    symm = ch.choice(["Z2", "U1"], "symm")
    ferm = ch.boolean("ferm")
    d = ch.integer(1, 3, "d")
    ncharge = ch.integer(2, 3 if symm == "U1" else 2, "ncharge")
    charges = [0, 1, 2][:ncharge] if symm == "U1" else [0, 1]
    rng = np.random.default_rng(ch.integer(0, 999, "seed"))
    blk = rng.normal(size=(d, d))
    cls = gen.array_class(symm, ferm, False)
    ix = sr.BlockIndex({c: d for c in charges}, dual=False)
    kw = {"oddpos": 3} if ferm else {}
    x = cls([ix, ix.conj()], charge=0,
            blocks={(c, c): blk.copy() for c in charges}, **kw)
    _, sfull, _ = must(sr.linalg.svd, x, what="svd")
    full = spectrum(sfull)
    N = d * len(charges)
    mode = ch.integer(1, 6, "mode")
    max_bond = ch.integer(1, N, "max_bond")
    cutoff = ch.choice([1e-12, 1e-9], "cutoff")
    check_truncation(ch, x, full, mode, cutoff, max_bond, "sr", sig="ties")
    ch.mark_nontrivial(max_bond % len(charges) != 0)


def law_exact_boundary(ch):
    """spectra of exact powers of two and a cutoff that equals a partial sum
    bit for bit: the documented rules are strict ('trim s.t. sum < cutoff',
    'trim values below cutoff'), which is decidable here without a band"""
    import symmray as sr

    symm = ch.choice(["Z2", "U1", "Z4"], "symm")
    ferm = symm != "Z4" and ch.boolean("ferm")
    ncharge = ch.integer(1, {"Z2": 2, "U1": 3, "Z4": 3}[symm], "ncharge")
    charges = list(range(ncharge))
    sizes = {c: ch.integer(1, 3, f"d{c}") for c in charges}
    exps = {c: [ch.integer(-6, 6, f"e{c}.{k}") for k in range(sizes[c])]
            for c in charges}
    cls = gen.array_class(symm, ferm, symm == "Z4")
    ix = sr.BlockIndex(dict(sizes), dual=False)
    kw = {"oddpos": 3} if ferm else {}
    if symm == "Z4":
        kw["symmetry"] = "Z4"
    x = cls([ix, ix.conj()], charge=0, blocks={
        (c, c): np.diag([2.0 ** e for e in exps[c]]) for c in charges}, **kw)
    _, sfull, _ = must(sr.linalg.svd, x, what="svd")
    full = spectrum(sfull)
    allv = np.sort(np.concatenate(list(full.values())))
    want = np.sort(np.array([2.0 ** e for c in charges for e in exps[c]]))
    if not np.array_equal(allv, want):
        return  # LAPACK did not return the exact values: not decidable
    N = len(allv)
    mode = ch.choice([1, 3, 5, 4, 6], "mode")
    t = ch.integer(1, N, "t")
    if mode == 1:
        cutoff = float(allv[t - 1])      # equals the t-th smallest value
        keep = int(np.sum(allv >= cutoff))   # values *below* are trimmed
    elif mode in (3, 5):
        p = 2 if mode == 3 else 1
        cum = np.cumsum(allv ** p)
        cutoff = float(cum[t - 1])       # weight of the t smallest, exactly
        keep = N - int(np.sum(cum < cutoff))
    else:
        cutoff = 1.0                     # relative: the whole weight
        p = 2 if mode == 4 else 1
        cum = np.cumsum(allv ** p)
        keep = N - int(np.sum(cum < cum[-1] * cutoff))
    U, s, VH = run_truncated(x, "sr", cutoff=cutoff, cutoff_mode=mode,
                             max_bond=-1, absorb=None)
    nk = int(sum(np.size(b) for b in s.blocks.values()))
    # ties with the smallest kept value may be kept as well
    desc = allv[::-1]
    hi = keep
    if 1 <= keep < N:
        hi += int(np.sum(desc[keep:] == desc[keep - 1]))
    require(keep <= nk <= hi, "exact-boundary:count",
            lambda: f"{symm} spectrum {allv.tolist()} mode={mode} "
                    f"cutoff={cutoff!r}: kept {nk}, the strict rule keeps "
                    f"{keep}" + (f"..{hi}" if hi != keep else ""))
    ch.label(f"mode={mode}")
    ch.mark_nontrivial(0 < keep < N or mode in (4, 6))


LAWS = [
    Law("truncate", law_truncate, quick=2400, thorough=36000,
        doc="counting predicates, error == discarded weight, monotonicity, "
            "absorb options, factor validity"),
    Law("ties", law_ties, quick=400, thorough=4000,
        doc="identical blocks in several charges: exact ties at the bond "
            "limit's threshold"),
    Law("exact_boundary", law_exact_boundary, quick=800, thorough=10000,
        doc="exactly representable spectra (powers of two) with a cutoff "
            "equal to a value / partial sum / the whole weight: strict "
            "inequality of the documented rules"),
]

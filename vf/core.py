"""Core machinery shared by every property check.

* ``Discrepancy``: an oracle disagreement (a property violation candidate).
* ``Chooser``: the single source of generated choices for a law.  A law is a
  plain function ``law(ch)``; every random decision goes through
  ``ch.draw(strategy, label)``.  Under Hypothesis the draw comes from
  ``st.data()`` (so shrinking works on whole programs / histories); every
  drawn value is recorded, and the recorded list *is* the replay file, which
  is re-executed by ``ReplayChooser`` without Hypothesis.
* codec: JSON encoding that keeps tuples and non-string dict keys.
"""

import hashlib
import json
import os
import sys
import traceback


class Discrepancy(Exception):
    """The oracle and the code under test disagree."""

    def __init__(self, sig, msg=""):
        super().__init__(f"{sig}: {msg}")
        self.sig = sig
        self.msg = msg


class HarnessError(Exception):
    """Something is wrong with the harness itself (never a violation)."""


class Skip(Exception):
    """The case is outside the domain of the law (counted, not judged)."""


# ------------------------------------------------------------------ codec ---


def enc(o):
    """Encode tuples / dicts with non-string keys into plain JSON values."""
    if isinstance(o, tuple):
        return {"__t": [enc(v) for v in o]}
    if isinstance(o, list):
        return [enc(v) for v in o]
    if isinstance(o, dict):
        if all(isinstance(k, str) for k in o):
            return {k: enc(v) for k, v in o.items()}
        return {"__d": [[enc(k), enc(v)] for k, v in o.items()]}
    if isinstance(o, (bool, int, float, str)) or o is None:
        return o
    if isinstance(o, complex):
        return {"__c": [o.real, o.imag]}
    if hasattr(o, "item"):  # numpy scalar
        return enc(o.item())
    if isinstance(o, (set, frozenset)):
        return {"__s": sorted((enc(v) for v in o), key=repr)}
    return {"__r": repr(o)}


def dec(o):
    if isinstance(o, list):
        return [dec(v) for v in o]
    if isinstance(o, dict):
        if "__t" in o and len(o) == 1:
            return tuple(dec(v) for v in o["__t"])
        if "__d" in o and len(o) == 1:
            return {dec(k): dec(v) for k, v in o["__d"]}
        if "__c" in o and len(o) == 1:
            return complex(*o["__c"])
        if "__s" in o and len(o) == 1:
            return frozenset(dec(v) for v in o["__s"])
        return {k: dec(v) for k, v in o.items()}
    return o


def dumps(o, **kw):
    return json.dumps(enc(o), sort_keys=True, **kw)


def case_hash(draws):
    return hashlib.sha1(dumps(draws).encode()).hexdigest()[:16]


# --------------------------------------------------------------- choosers ---


class Chooser:
    """Base class: records draws, labels, non-triviality."""

    def __init__(self):
        self.draws = []  # list of [label, value]
        self.labels = []
        self.nontrivial = False
        self.counters = {}

    def _record(self, label, value):
        self.draws.append([label, value])
        return value

    def label(self, text):
        self.labels.append(text)

    def annotate(self, text):
        """human-readable trace of what the drawn values meant (kept with the
        samples in the evidence; never used for replay)"""
        if not hasattr(self, "notes"):
            self.notes = []
        if len(self.notes) < 40:
            self.notes.append(str(text)[:300])

    def mark_nontrivial(self, flag=True):
        if flag:
            self.nontrivial = True

    def count(self, key, n=1):
        self.counters[key] = self.counters.get(key, 0) + n

    # convenience draws ---------------------------------------------------
    # Hypothesis' generation favours the first element / smallest value of a
    # bounded choice (zero-extension of short prefixes).  To spread that bias
    # evenly over the options every bounded choice is rotated by an amount
    # derived from a per-case drawn 'salt' and the draw's label.  salt = 0
    # (what the shrinker aims for) is the identity rotation.
    _salt = None

    def _rot(self, label, n):
        from hypothesis import strategies as st

        if n <= 1:
            return 0
        if self._salt is None:
            self._salt = self.draw(st.integers(0, 2**30), "salt")
        if self._salt == 0:
            return 0
        h = hashlib.sha1(f"{self._salt}/{label}".encode()).digest()
        return int.from_bytes(h[:4], "big") % n

    def integer(self, lo, hi, label="int"):
        from hypothesis import strategies as st

        n = hi - lo + 1
        v = self.draw(st.integers(lo, hi), label)
        if n > 4096:
            return v
        return lo + (v - lo + self._rot(label, n)) % n

    def boolean(self, label="bool", p=None):
        if p is None:
            return bool(self.integer(0, 1, label))
        return self.integer(0, 999, label) >= int(1000 * (1 - p))

    def choice(self, seq, label="choice"):
        seq = list(seq)
        return seq[self.integer(0, len(seq) - 1, label)]

    def perm(self, n, label="perm"):
        from hypothesis import strategies as st

        if n <= 5:
            import itertools

            allp = list(itertools.permutations(range(n)))
            return allp[self.integer(0, len(allp) - 1, label)]
        return tuple(self.draw(st.permutations(list(range(n))), label))

    def subset(self, seq, label="subset", min_size=0):
        from hypothesis import strategies as st

        seq = list(seq)
        if len(seq) <= 10:
            bits = self.integer(0, 2 ** len(seq) - 1, label)
            mask = [(bits >> k) & 1 for k in range(len(seq))]
        else:
            mask = self.draw(
                st.lists(st.booleans(), min_size=len(seq), max_size=len(seq)),
                label,
            )
        out = [s for s, m in zip(seq, mask) if m]
        if len(out) < min_size:
            out = seq[:min_size]
        return out


class HypChooser(Chooser):
    def __init__(self, data):
        super().__init__()
        self._data = data

    def draw(self, strategy, label="v"):
        return self._record(label, self._data.draw(strategy, label=label))


class ReplayChooser(Chooser):
    """Feeds back recorded draws; strategies are ignored."""

    def __init__(self, draws):
        super().__init__()
        self._src = list(draws)
        self._i = 0

    def draw(self, strategy, label="v"):
        # A recorded failing case ends where it failed.  On a tree where it
        # no longer fails the law runs on and asks for draws that were never
        # made (or, after a different branch, for other draws): the recorded
        # case is over - it held as far as it was recorded.
        if self._i >= len(self._src):
            raise Skip(f"replay exhausted at draw {self._i} ({label!r})")
        lab, val = self._src[self._i]
        if lab != label:
            raise Skip(
                f"replay diverged at draw {self._i}: recorded {lab!r}, "
                f"law asks {label!r}"
            )
        self._i += 1
        return self._record(label, val)


# ------------------------------------------------------------------- laws ---


class Law:
    """A law of a property.

    kind == "hyp": ``fn(ch)`` driven by Hypothesis, ``quick``/``thorough`` are
    total case counts (split over shards).
    kind == "enum": ``cases(tier)`` yields JSON-able cases; ``fn(ch)`` obtains
    its case with ``ch.draw(None, "case")``.  Enumerations are split over
    shards by index and always run completely (``exhaustive``).
    """

    def __init__(
        self,
        name,
        fn,
        quick=200,
        thorough=4000,
        kind="hyp",
        cases=None,
        doc="",
        max_shards=16,
    ):
        self.name = name
        self.fn = fn
        self.quick = quick
        self.thorough = thorough
        self.kind = kind
        self.cases = cases
        self.doc = doc or (fn.__doc__ or "").strip().split("\n")[0]
        self.max_shards = max_shards


def repo_root():
    return os.path.realpath(os.environ.get("VERIF_REPO", "/repo"))


def lib_frame(exc):
    """Innermost traceback frame that lies inside the symmray package, as
    'module.function', or None if the library was not on the stack."""
    root = os.path.join(repo_root(), "symmray") + os.sep
    found = None
    for fs in traceback.extract_tb(exc.__traceback__):
        fn = os.path.realpath(fs.filename)
        if fn.startswith(root):
            mod = fn[len(root):].rsplit(".", 1)[0].replace(os.sep, ".")
            found = f"{mod}.{fs.name}"
    return found


def raise_sig(exc):
    fr = lib_frame(exc)
    return f"raises:{type(exc).__name__}@{fr}"


def must(fn, *a, what=None, **kw):
    """Call library code that the property promises to return a result for
    this input: an exception raised from inside the library is a discrepancy.
    """
    try:
        return fn(*a, **kw)
    except (Discrepancy, HarnessError, Skip):
        raise
    except MemoryError as e:
        # the environment, not the property: inconclusive
        raise HarnessError(f"out of memory: {e}") from None
    except RecursionError as e:
        raise Discrepancy(
            f"raises:RecursionError@{what or getattr(fn, '__name__', '?')}",
            "infinite recursion",
        ) from None
    except Exception as e:
        if _is_hyp(e):
            raise
        if lib_frame(e) is None:
            raise
        name = what or getattr(fn, "__name__", "?")
        raise Discrepancy(
            raise_sig(e), f"{name} raised {type(e).__name__}: {e}"
        ) from e


def attempt(fn, *a, **kw):
    """Call library code that is allowed to raise on this input.
    Returns (True, value) or (False, exception)."""
    try:
        return True, fn(*a, **kw)
    except (Discrepancy, HarnessError, Skip):
        raise
    except MemoryError as e:
        raise HarnessError(f"out of memory: {e}") from None
    except RecursionError as e:
        return False, e
    except NameError as e:
        # (incl. UnboundLocalError) never a deliberate rejection of an input:
        # "raises" here means the operation is broken, not that it refuses
        if lib_frame(e) is None:
            raise
        raise Discrepancy(
            raise_sig(e),
            f"{getattr(fn, '__name__', '?')} raised {type(e).__name__}: {e}",
        ) from e
    except Exception as e:
        if _is_hyp(e):
            raise
        return False, e


def _is_hyp(e):
    mod = type(e).__module__ or ""
    return mod.startswith("hypothesis")


def require(cond, sig, msg=""):
    if not cond:
        raise Discrepancy(sig, msg() if callable(msg) else msg)


def tier():
    """tier of the running check (quick / thorough); laws may use it to bound
    generated sizes (history lengths)"""
    return os.environ.get("VF_TIER", "quick")
